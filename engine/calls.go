package main

// Calls: builtins, modular calls by contract, inlining, interface / field contracts, abstraction.

import (
	"fmt"
	"sort"
	"go/token"
	"go/types"
	"strings"

	"golang.org/x/tools/go/ssa"
)

func (vc *VC) evalCallOperands(st *State, fr *Frame, call *ssa.CallCommon) (Val, []Val) {
	var args []Val
	for _, a := range call.Args {
		args = append(args, vc.value(st, fr, a))
	}
	var fnv Val
	if call.IsInvoke() {
		fnv = vc.value(st, fr, call.Value)
	} else {
		switch call.Value.(type) {
		case *ssa.Builtin:
			fnv = FuncV{Fn: call.Value}
		default:
			fnv = vc.value(st, fr, call.Value)
			if fv, ok := fnv.(FuncV); ok && fv.From == "" {
				fv.From = fieldFuncKey(call.Value)
				fnv = fv
			}
		}
	}
	return fnv, args
}

func (vc *VC) setResult(fr *Frame, instr ssa.Instruction, results []Val) {
	if instr == nil {
		return
	}
	v, ok := instr.(ssa.Value)
	if !ok {
		return
	}
	switch len(results) {
	case 0:
	case 1:
		fr.env[v] = results[0]
	default:
		fr.env[v] = TupleV{results}
	}
}

func (vc *VC) freshResults(st *State, sig *types.Signature, prefix string) []Val {
	var out []Val
	for i := 0; i < sig.Results().Len(); i++ {
		out = append(out, st.freshVal(fmt.Sprintf("%s_r%d", prefix, i), sig.Results().At(i).Type()))
	}
	return out
}

// doCall executes a call. Returns true if a continuation took over (inlined callee); the caller must stop.
func (vc *VC) doCall(st *State, fr *Frame, call *ssa.CallCommon, instr ssa.Instruction, fnv Val, args []Val, b *ssa.BasicBlock, idx int, reexec bool, pos token.Pos) bool {
	sig := call.Signature()
	if call.IsInvoke() {
		key := ifaceKey(call)
		recv := fnv
		vc.callEvent(st, fr, key, args, nil, false, pos, sig)
		if c, ok := vc.ifaceCon[key]; ok {
			// nil interface receiver panics
			if iv, ok := recv.(IfaceV); ok {
				vc.check(st, fr, "safety", "nil-interface-call", vc.safetyTags(fr), sNot(sEq(iv.Tag, "0")), pos)
			}
			names := map[string]nameEntry{}
			names["self"] = nameEntry{V: recv, T: call.Value.Type()}
			for i, a := range args {
				n := fmt.Sprintf("arg%d", i)
				if i < len(c.Params) {
					n = c.Params[i]
				}
				names[n] = nameEntry{V: a, T: sig.Params().At(i).Type()}
			}
			res := vc.applyContract(st, fr, c, key, names, sig, pos)
			vc.setResult(fr, instr, res)
			vc.callEvent(st, fr, key, args, res, true, pos, sig)
			return false
		}
		if iv, ok := recv.(IfaceV); ok && !vc.effectFreeIface(call) {
			vc.check(st, fr, "safety", "nil-interface-call", vc.safetyTags(fr), sNot(sEq(iv.Tag, "0")), pos)
		}
		if !vc.effectFreeIface(call) {
			vc.noteAbstracted("invoke " + key)
		}
		res := vc.freshResults(st, sig, "inv_"+call.Method.Name())
		vc.setResult(fr, instr, res)
		vc.callEvent(st, fr, key, args, res, true, pos, sig)
		return false
	}
	fv, ok := fnv.(FuncV)
	if !ok {
		panic(unsupported(fmt.Sprintf("call through %T", fnv)))
	}
	switch callee := fv.Fn.(type) {
	case *ssa.Builtin:
		vc.builtin(st, fr, callee, call, instr, args, pos)
		return false
	case *ssa.Function:
		return vc.callFunction(st, fr, callee, fv, call, instr, args, b, idx, reexec, pos)
	case nil:
		// symbolic function value: field contract?
		if fv.From != "" {
			vc.callEvent(st, fr, fv.From, args, nil, false, pos, sig)
			if c, ok := vc.fieldCon[fv.From]; ok {
				vc.check(st, fr, "safety", "nil-func-call", vc.safetyTags(fr), sNot(sEq(fv.Term, "0")), pos)
				names := map[string]nameEntry{}
				if fv.Owner != "" {
					names["self"] = nameEntry{V: intv(fv.Owner), T: fv.OwnerT}
				}
				for i, a := range args {
					n := fmt.Sprintf("arg%d", i)
					if i < len(c.Params) {
						n = c.Params[i]
					}
					names[n] = nameEntry{V: a, T: sig.Params().At(i).Type()}
				}
				res := vc.applyContract(st, fr, c, fv.From, names, sig, pos)
				vc.setResult(fr, instr, res)
				vc.callEvent(st, fr, fv.From, args, res, true, pos, sig)
				return false
			}
		}
		vc.noteAbstracted("call through func value " + fv.From)
		res := vc.freshResults(st, sig, "fcall")
		vc.setResult(fr, instr, res)
		return false
	}
	panic(unsupported(fmt.Sprintf("call of %T", fv.Fn)))
}

func (vc *VC) effectFreeIface(call *ssa.CallCommon) bool {
	key := ifaceKey(call)
	i := strings.LastIndex(key, ".")
	if i < 0 {
		return false
	}
	tn := key[:i]
	if vc.effectFree[tn] {
		return true
	}
	j := strings.LastIndex(tn, ".")
	if j >= 0 && vc.effectFree[tn[:j]] {
		return true
	}
	return false
}

func (vc *VC) callFunction(st *State, fr *Frame, callee *ssa.Function, fv FuncV, call *ssa.CallCommon, instr ssa.Instruction, args []Val, b *ssa.BasicBlock, idx int, reexec bool, pos token.Pos) bool {
	sig := callee.Signature
	full := callee.String()
	vc.callEvent(st, fr, full, args, nil, false, pos, sig)
	// special forms
	switch full {
	case "(*golang.org/x/sync/errgroup.Group).Go":
		// fork/join only: run the function now (assumption listed in the evidence)
		f, ok := args[1].(FuncV)
		if !ok || f.Fn == nil {
			panic(unsupported("errgroup.Go with non-literal function"))
		}
		cf := f.Fn.(*ssa.Function)
		return vc.inline(st, fr, cf, f, nil, instr, b, idx, reexec, true)
	case "(*golang.org/x/sync/errgroup.Group).Wait":
		res := vc.freshResults(st, sig, "wait")
		vc.setResult(fr, instr, res)
		return false
	}
	if c, ok := vc.contracts[callee]; ok && !(c.EffectFree && len(c.Ensures) == 0) {
		// nil receiver dereference is the callee's business; modular call
		names := map[string]nameEntry{}
		ai := 0
		if sig.Recv() != nil && ai < len(args) {
			names[sig.Recv().Name()] = nameEntry{V: args[ai], T: sig.Recv().Type()}
			ai++
		}
		for i := 0; i < sig.Params().Len() && ai < len(args); i++ {
			names[sig.Params().At(i).Name()] = nameEntry{V: args[ai], T: sig.Params().At(i).Type()}
			ai++
		}
		if c.Pkg != "" {
			vc.usedRepoContracts[callee] = true
		}
		res := vc.applyContract(st, fr, c, funcShort(callee), names, sig, pos)
		vc.setResult(fr, instr, res)
		vc.callEvent(st, fr, full, args, res, true, pos, sig)
		return false
	}
	if vc.isEffectFree(callee) {
		res := vc.freshResults(st, sig, "ef_"+callee.Name())
		vc.setResult(fr, instr, res)
		vc.callEvent(st, fr, full, args, res, true, pos, sig)
		return false
	}
	inModule := strings.Contains(full, "tkestack.io/kvass")
	if callee.Blocks != nil && (inModule || callee.Parent() != nil) {
		// closure or module function without contract: inline when loop-free
		if len(vc.loopsOf(callee)) == 0 && fr.depth < 6 && !vc.onStack(fr, callee) {
			vc.noteInlined(full)
			return vc.inline(st, fr, callee, fv, args, instr, b, idx, reexec, false)
		}
		panic(unsupported(fmt.Sprintf("call to %s: has loops or recursion and no contract", full)))
	}
	// external function without contract: abstracted (assumed not to touch modelled state)
	vc.noteAbstracted(full)
	res := vc.freshResults(st, sig, "ext_"+callee.Name())
	vc.setResult(fr, instr, res)
	vc.callEvent(st, fr, full, args, res, true, pos, sig)
	return false
}

func (vc *VC) onStack(fr *Frame, fn *ssa.Function) bool {
	for f := fr; f != nil; f = f.parent {
		if f.fn == fn {
			return true
		}
	}
	return false
}

func (vc *VC) inline(st *State, fr *Frame, callee *ssa.Function, fv FuncV, args []Val, instr ssa.Instruction, b *ssa.BasicBlock, idx int, reexec bool, discardResult bool) bool {
	nf := &Frame{fn: callee, env: map[ssa.Value]Val{}, names: map[string]nameEntry{}, parent: fr, retBlock: b, retIdx: idx, retInstr: instr, retReexec: reexec,
		seen: map[*ssa.BasicBlock]bool{}, visited: map[*ssa.BasicBlock]string{}, pkg: fr.pkg, depth: fr.depth + 1}
	if discardResult {
		nf.retInstr = nil
		// the call instruction's own result (none for Go) is set by the caller
	}
	if callee.Pkg != nil {
		if p := vc.pkgOf(callee.Pkg.Pkg.Path()); p != nil {
			nf.pkg = p
		}
	}
	for i, p := range callee.Params {
		if i < len(args) {
			nf.env[p] = args[i]
			nf.names[p.Name()] = nameEntry{V: args[i], T: p.Type()}
		}
	}
	for i, f := range callee.FreeVars {
		if i < len(fv.Free) {
			nf.env[f] = fv.Free[i]
			nf.names[f.Name()] = nameEntry{V: fv.Free[i], T: f.Type(), IsAddr: true}
		}
	}
	if len(callee.Blocks) == 0 {
		panic(unsupported("inline of bodiless function " + callee.String()))
	}
	vc.runBlock(st, nf, callee.Blocks[0], nil)
	return true
}

// applyContract: assert requires, havoc modifies, assume ensures; returns result values.
func (vc *VC) applyContract(st *State, fr *Frame, c *Contract, calleeName string, names map[string]nameEntry, sig *types.Signature, pos token.Pos) []Val {
	pkg := vc.pkgOf(c.Pkg)
	mk := func(extra map[string]nameEntry, old map[string]string, oldAlloc string) *SpecEnv {
		env := &SpecEnv{st: st, old: old, oldAlloc: oldAlloc, pkg: pkg}
		if pkg == nil {
			env.pkg = fr.pkg
		}
		env.lookup = func(name string) (nameEntry, bool) {
			if ne, ok := extra[name]; ok {
				return ne, true
			}
			return nameEntry{}, false
		}
		return env
	}
	pre := st.snapshot()
	preAlloc := st.allocTerm()
	env := mk(names, pre, preAlloc)
	for _, r := range c.Requires {
		cl := *r
		vc.checkClause(st, fr, env, "call-requires", &cl, calleeName+"/", pos)
	}
	// havoc what the contract allows to change; everything else allocated before the call is kept
	pols := vc.modPolicyOf(c)
	// call-site resolved items: elemsof(param) / pointee(param)
	for _, mi := range c.Modifies {
		ne, ok := names[mi.Path]
		if !ok {
			continue
		}
		switch mi.Kind {
		case "elemsof":
			sl, ok := ne.V.(SliceV)
			st2, ok2 := ne.T.Underlying().(*types.Slice)
			if !ok || !ok2 {
				sfail("elemsof(%s): not a slice", mi.Path)
			}
			for _, l := range vc.leaves(st2.Elem()) {
				n, _ := vc.elemArr(typeKey(st2.Elem()), l.Path, l)
				if pols[n] == nil {
					pols[n] = &modPolicy{}
				}
				pols[n].at = append(pols[n].at, &EIdent{Name: mi.Path})
			}
			_ = sl
		case "pointee":
			iv, ok := ne.V.(IfaceV)
			if !ok || iv.Dyn == nil {
				sfail("pointee(%s): dynamic type of the interface value is not statically known", mi.Path)
			}
			pt, ok := iv.Dyn.Underlying().(*types.Pointer)
			if !ok {
				sfail("pointee(%s): dynamic type is not a pointer", mi.Path)
			}
			for _, l := range vc.leaves(pt.Elem()) {
				n, _ := vc.fieldArr(ownerKey(pt.Elem()), l.Path, l)
				if pols[n] == nil {
					pols[n] = &modPolicy{}
				}
				pols[n].at = append(pols[n].at, &ECall{Fn: "payload", Args: []Expr{&EIdent{Name: mi.Path}}})
			}
		}
	}
	// calls f: whatever the body of the function value passed as f can write (syntactic write set) may have changed
	for _, pn := range c.Calls {
		ne, ok := names[pn]
		if !ok {
			sfail("calls %s: no such parameter", pn)
		}
		fv, ok := ne.V.(FuncV)
		if !ok {
			continue
		}
		fn, ok := fv.Fn.(*ssa.Function)
		if !ok || fn == nil {
			vc.noteAbstracted("callback " + pn + " of " + calleeName + " is not a known function: its effects are not modelled")
			continue
		}
		// stores into objects the callback allocates itself (e.g. the argument slice of a variadic call) touch fresh
		// objects only; every other write may hit any object of that array
		ws := map[string]bool{}     // may change anywhere
		wsNew := map[string]bool{} // may change at fresh objects only
		allocs := false
		visiting := map[*ssa.Function]bool{fn: true}
		for _, b := range fn.Blocks {
			for _, in := range b.Instrs {
				if stI, isStore := in.(*ssa.Store); isStore && rootedAtLocalAlloc(stI.Addr) {
					vc.writesOf(st, fr, in, wsNew, &allocs, 1, visiting)
					continue
				}
				switch in.(type) {
				case *ssa.Alloc, *ssa.MakeSlice, *ssa.MakeMap, *ssa.MakeInterface, *ssa.MakeClosure, *ssa.Slice:
					// initialisation of a new object
					vc.writesOf(st, fr, in, wsNew, &allocs, 1, visiting)
					continue
				}
				vc.writesOf(st, fr, in, ws, &allocs, 1, visiting)
			}
		}
		for a := range wsNew {
			if _, known := vc.arrSorts[a]; !known || ws[a] {
				continue
			}
			if pols[a] == nil {
				pols[a] = &modPolicy{at: []Expr{}}
			}
		}
		for a := range ws {
			if _, known := vc.arrSorts[a]; !known {
				continue
			}
			if pols[a] == nil {
				pols[a] = &modPolicy{}
			}
			pols[a].unrestricted = true
		}
	}
	var arrs []string
	for a := range pols {
		arrs = append(arrs, a)
	}
	sort.Strings(arrs)
	type pending struct {
		arr, oldSym string
		cond        string
		o           string
	}
	var pend []pending
	for _, a := range arrs {
		pol := pols[a]
		if pol.unrestricted {
			continue
		}
		vc.counter++
		o := fmt.Sprintf("o!%d", vc.counter)
		pend = append(pend, pending{arr: a, cond: notInSet(env, o, pol.at), o: o})
	}
	nb := st.fresh("alloc", SInt)
	st.assume(fmt.Sprintf("(>= %s %s)", nb, preAlloc))
	st.allocBase, st.allocOff = nb, 0
	for _, a := range arrs {
		sort := vc.arrSorts[a]
		oldSym := st.array(a, sort)
		newSym := st.havocArray(a)
		st.wellTyped(a, newSym, st.allocTerm())
		for _, p := range pend {
			if p.arr == a {
				if strings.HasPrefix(a, "GG_") {
					continue
				}
				st.assume(fmt.Sprintf("(forall ((%s Int)) (! (=> (and (< %s %s) %s) (= (select %s %s) (select %s %s))) :pattern ((select %s %s))))", p.o, p.o, preAlloc, p.cond, newSym, p.o, oldSym, p.o, newSym, p.o))
			}
		}
	}
	// results
	res := vc.freshResults(st, sig, "res_"+sanitize(calleeName))
	post := map[string]nameEntry{}
	for k, v := range names {
		post[k] = v
	}
	for i, r := range res {
		t := sig.Results().At(i).Type()
		post[fmt.Sprintf("result%d", i)] = nameEntry{V: r, T: t}
		if n := sig.Results().At(i).Name(); n != "" && n != "_" {
			post[n] = nameEntry{V: r, T: t}
		}
		if len(res) == 1 {
			post["result"] = nameEntry{V: r, T: t}
		}
	}
	env2 := mk(post, pre, preAlloc)
	for _, e := range c.Ensures {
		st.assume(env2.evalBool(e.E))
	}
	vc.canary(st, fr, "after_call_"+sanitize(calleeName), pos)
	return res
}

// callEvent fires "on call X" (before) / "on after X" events.
func (vc *VC) callEvent(st *State, fr *Frame, target string, args []Val, res []Val, after bool, pos token.Pos, sigs ...*types.Signature) {
	var sig *types.Signature
	if len(sigs) > 0 {
		sig = sigs[0]
	}
	for _, ev := range vc.events {
		if ev.Kind != "call" || ev.After != after {
			continue
		}
		full := ev.Target
		if q, err := vc.qualify(ev.Target, vc.pkgOf(ev.Pkg), 2); err == nil {
			full = q
		}
		if full != target && ev.Target != target {
			// static function or method: resolve the event target and compare by identity
			fn, err := vc.resolveFunc(ev.Target, vc.pkgOf(ev.Pkg))
			if err != nil || fn.String() != target {
				continue
			}
		}
		extra := map[string]nameEntry{}
		argType := func(i int) types.Type {
			if sig == nil {
				return valType(args[i])
			}
			if sig.Recv() != nil && len(args) == sig.Params().Len()+1 {
				if i == 0 {
					return sig.Recv().Type()
				}
				return sig.Params().At(i - 1).Type()
			}
			if i < sig.Params().Len() {
				return sig.Params().At(i).Type()
			}
			return valType(args[i])
		}
		for i, n := range ev.Vars {
			if i < len(args) {
				extra[n] = nameEntry{V: args[i], T: argType(i)}
			}
		}
		for i, r := range res {
			t := valType(r)
			if sig != nil && i < sig.Results().Len() {
				t = sig.Results().At(i).Type()
			}
			extra[fmt.Sprintf("result%d", i)] = nameEntry{V: r, T: t}
			if len(res) == 1 {
				extra["result"] = nameEntry{V: r, T: t}
			}
		}
		vc.fireEvent(st, fr, ev, extra, pos)
	}
}

func valType(v Val) types.Type {
	switch x := v.(type) {
	case Sc:
		if x.S == SBool {
			return tBool
		}
		return tInt
	case IfaceV:
		return types.NewInterfaceType(nil, nil)
	}
	return tInt
}

// ---------- builtins ----------

func (vc *VC) builtin(st *State, fr *Frame, bi *ssa.Builtin, call *ssa.CallCommon, instr ssa.Instruction, args []Val, pos token.Pos) {
	set := func(v Val) {
		if instr != nil {
			if val, ok := instr.(ssa.Value); ok {
				fr.env[val] = v
			}
		}
	}
	switch bi.Name() {
	case "len":
		switch x := args[0].(type) {
		case SliceV:
			set(intv(x.Len))
		case Sc:
			if m, ok := call.Args[0].Type().Underlying().(*types.Map); ok {
				set(intv(st.mapLen(m, x.T, nil)))
				return
			}
			// string length
			vc.ufs["strlen"] = &UFDecl{Name: "strlen", Params: []string{"int"}, Result: "int"}
			t := "(uf_strlen " + x.T + ")"
			st.assume("(>= " + t + " 0)")
			st.assume(sEq("(uf_strlen 0)", "0"))
			set(intv(t))
		default:
			panic(unsupported("len of " + fmt.Sprintf("%T", args[0])))
		}
	case "cap":
		x := args[0].(SliceV)
		c := st.fresh("cap", SInt)
		st.assume(fmt.Sprintf("(>= %s %s)", c, x.Len))
		set(intv(c))
	case "append":
		set(vc.appendOp(st, fr, call, args, pos))
	case "delete":
		m := call.Args[0].Type().Underlying().(*types.Map)
		ref := args[0].(Sc).T
		key := args[1].(Sc).T
		vc.mapEvent(st, fr, "delete", call.Args[0], ref, key, nil, m, pos)
		// delete on a nil map is a no-op
		st.mapDelete(m, ref, key)
	case "copy":
		dst := args[0].(SliceV)
		el := call.Args[0].Type().Underlying().(*types.Slice).Elem()
		n := st.fresh("copied", SInt)
		st.assume(fmt.Sprintf("(and (<= 0 %s) (<= %s %s))", n, n, dst.Len))
		for _, l := range vc.leaves(el) {
			name, _ := vc.elemArr(typeKey(el), l.Path, l)
			sym := st.havocArray(name)
			st.wellTyped(name, sym, st.allocTerm())
		}
		set(intv(n))
	case "print", "println":
	case "min", "max":
		a, b := args[0].(Sc), args[1].(Sc)
		op := "<"
		if bi.Name() == "max" {
			op = ">"
		}
		set(Sc{sIte("("+op+" "+a.T+" "+b.T+")", a.T, b.T), a.S})
	default:
		panic(unsupported("builtin " + bi.Name()))
	}
}

func (vc *VC) appendOp(st *State, fr *Frame, call *ssa.CallCommon, args []Val, pos token.Pos) Val {
	el := call.Args[0].Type().Underlying().(*types.Slice).Elem()
	s := args[0].(SliceV)
	var t SliceV
	switch x := args[1].(type) {
	case SliceV:
		t = x
	case Sc:
		// append([]byte, string...) or nil
		t = SliceV{Base: "0", Off: "0", Len: "0"}
		if x.T != "0" {
			t.Len = st.fresh("applen", SInt)
			st.assume("(>= " + t.Len + " 0)")
			t.Base = st.fresh("appbase", SInt)
		}
	}
	nb := st.newRef()
	newLen := "(+ " + s.Len + " " + t.Len + ")"
	if t.Len == "0" {
		newLen = s.Len
	}
	for _, l := range vc.leaves(el) {
		name, sort := vc.elemArr(typeKey(el), l.Path, l)
		a := st.array(name, sort)
		if t.Len == "1" && s.Off == "0" {
			// quantifier-free: copy the old backing array and set index len
			tv := sSel(sSel(a, t.Base), t.Off)
			st.setArray(name, sort, sStore(a, nb, sStore(sSel(a, s.Base), s.Len, tv)))
			continue
		}
		// general: index-shift normal form over the result index
		fresh := st.fresh("appended", arrSort(SInt, l.Sort))
		vc.counter++
		i := fmt.Sprintf("i!%d", vc.counter)
		sidx := i
		if s.Off != "0" {
			sidx = "(+ " + s.Off + " " + i + ")"
		}
		tidx := "(- " + i + " " + s.Len + ")"
		if t.Off != "0" {
			tidx = "(+ " + t.Off + " " + tidx + ")"
		}
		st.assume(fmt.Sprintf("(forall ((%s Int)) (! (=> (and (<= 0 %s) (< %s %s)) (= (select %s %s) (ite (< %s %s) (select (select %s %s) %s) (select (select %s %s) %s)))) :pattern ((select %s %s))))",
			i, i, i, newLen, fresh, i, i, s.Len, a, s.Base, sidx, a, t.Base, tidx, fresh, i))
		st.setArray(name, sort, sStore(a, nb, fresh))
	}
	return SliceV{Base: nb, Off: "0", Len: newLen}
}

// rootedAtLocalAlloc: the address is a field/element path into an object allocated by the same function
func rootedAtLocalAlloc(v ssa.Value) bool {
	for {
		switch x := v.(type) {
		case *ssa.FieldAddr:
			v = x.X
		case *ssa.IndexAddr:
			v = x.X
		case *ssa.Alloc:
			return true
		default:
			return false
		}
	}
}
