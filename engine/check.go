package main

// govc check: decide one property — generate, discharge, classify, report, write evidence.

import (
	"crypto/sha256"
	"encoding/json"
	"flag"
	"fmt"
	"os"
	"path/filepath"
	"regexp"
	"runtime"
	"sort"
	"strings"
	"time"

	"golang.org/x/tools/go/ssa"
)

type PropConfig struct {
	ID        string   `json:"id"`
	Packages  []string `json:"packages"`
	Functions []string `json:"functions"`
	// Also: obligation name prefixes that are relevant even without the tag (support)
	Note      string   `json:"note"`
	Replay    string   `json:"replay"` // replay harness id
	Bounded   []BoundedCheck `json:"bounded,omitempty"`
	Assumptions []string `json:"assumptions,omitempty"`
}

type BoundedCheck struct {
	Name    string `json:"name"`
	Bound   string `json:"bound"`
	Harness string `json:"harness"` // replay harness id
	Func    string `json:"func"`    // scenario selector understood by the harness
	// filled in at run time
	Evaluations int    `json:"evaluations"`
	Budget      int    `json:"cases_requested"` // generated cases requested in this run (quick: as in bound; thorough: ten times)
	Violation   string `json:"violation,omitempty"`
}

type KnownFinding struct {
	Property   string `json:"property"`
	Obligation string `json:"obligation"` // obligation name (without site)
	Case       string `json:"case,omitempty"`
	What       string `json:"what"`
	Status     string `json:"status"` // open | fixed
	Commit     string `json:"commit,omitempty"`
}

func readProps() map[string]*PropConfig {
	b, err := os.ReadFile(filepath.Join(verifDir, "props.json"))
	if err != nil {
		fmt.Fprintln(os.Stderr, "props.json:", err)
		os.Exit(2)
	}
	var list []*PropConfig
	if err := json.Unmarshal(b, &list); err != nil {
		fmt.Fprintln(os.Stderr, "props.json:", err)
		os.Exit(2)
	}
	out := map[string]*PropConfig{}
	for _, p := range list {
		out[p.ID] = p
	}
	return out
}

func readKnown() []KnownFinding {
	b, err := os.ReadFile(filepath.Join(verifDir, "known_findings.json"))
	if err != nil {
		return nil
	}
	var k []KnownFinding
	if err := json.Unmarshal(b, &k); err != nil {
		fmt.Fprintln(os.Stderr, "known_findings.json:", err)
		os.Exit(2)
	}
	return k
}

var propTag = regexp.MustCompile(`^C[0-9]+$`)
var conjunctSuffix = regexp.MustCompile(`#[0-9]+$`)

// relevant: does obligation o count for property id?
func relevant(o *Obligation, id string) bool {
	// a function of this property that the engine could not process at all has decided nothing for ANY property it carries
	if o.Kind == "engine" || o.Status == "error" {
		return true
	}
	has := false
	for _, t := range o.Tags {
		if propTag.MatchString(t) {
			has = true
			if t == id {
				return true
			}
		}
	}
	return !has
}

type funcInfo struct {
	Name     string   `json:"name"`
	File     string   `json:"file"`
	SSAHash  string   `json:"ssa_sha256"`
	Clauses  int      `json:"contract_clauses"`
	Inlined  []string `json:"inlined_callees,omitempty"`
	Abstracted []string `json:"abstracted_calls,omitempty"`
}

func ssaHash(fn *ssa.Function) string {
	var b strings.Builder
	fn.WriteTo(&b)
	// strip debug refs and positions so that the hash follows the code, not the layout
	h := sha256.Sum256([]byte(b.String()))
	return fmt.Sprintf("%x", h[:8])
}

func cmdCheck(args []string) {
	fs := flag.NewFlagSet("check", flag.ExitOnError)
	prop := fs.String("prop", "", "property id")
	tier := fs.String("tier", "quick", "quick|thorough")
	fs.Parse(args)
	start := time.Now()
	props := readProps()
	pc := props[*prop]
	if pc == nil {
		fmt.Fprintf(os.Stderr, "property %s not configured in props.json\n", *prop)
		os.Exit(2)
	}
	seed := 0
	fmt.Sscan(os.Getenv("VERIF_SEED"), &seed)
	timeout := 10
	if *tier == "thorough" {
		timeout = 60
	}
	outDir := filepath.Join(verifDir, "out", *prop)
	os.RemoveAll(outDir)
	os.MkdirAll(outDir, 0o755)
	replayDir := filepath.Join(verifDir, "out", "replay")
	os.MkdirAll(replayDir, 0o755)

	res := runProperty(pc, *tier, timeout, outDir, nil)
	if res.loadErr != nil {
		// the tree does not even load with the verif tag: report as a failed check, not as a pass
		path := filepath.Join(replayDir, *prop+"-load-error.json")
		writeJSON(path, map[string]interface{}{"property": *prop, "obligation": "engine/load", "error": res.loadErr.Error()})
		fmt.Printf("VIOLATION property=%s replay=%s no-failing-input-found\n", *prop, path)
		writeEvidence(pc, *tier, seed, res, time.Since(start).Seconds(), 1, nil)
		os.Exit(1)
	}
	currentVC = res.vc
	known := readKnown()
	violations := 0
	var knownHit []string
	reported := map[string]bool{}
	// a canary that fails in a function with another failed obligation is a consequence of assuming that obligation
	// after asserting it: it is folded into that failure instead of being reported on its own
	failedFuncs := map[string]bool{}
	for _, o := range res.relevant {
		if o.Status != "proved" && o.Kind != "canary" {
			failedFuncs[o.Func] = true
		}
	}
	for _, o := range res.relevant {
		if o.Status == "proved" {
			continue
		}
		if o.Kind == "canary" && failedFuncs[o.Func] {
			continue
		}
		key := conjunctSuffix.ReplaceAllString(o.Name, "")
		if reported[key] {
			continue
		}
		reported[key] = true
		// known finding?
		matched := false
		for _, k := range known {
			if k.Status == "open" && k.Property == *prop && k.Obligation == conjunctSuffix.ReplaceAllString(o.Name, "") {
				fmt.Printf("KNOWN-FINDING: property=%s %s (%s)\n", *prop, k.What, o.Name)
				knownHit = append(knownHit, o.Name)
				matched = true
			}
		}
		if matched {
			continue
		}
		violations++
		path := filepath.Join(replayDir, fmt.Sprintf("%s-%s.json", *prop, sanitize(o.Name)))
		rep := map[string]interface{}{
			"property": *prop, "obligation": o.Name, "kind": o.Kind, "site": o.Site, "path": o.Trail,
			"status": o.Status, "solver": o.Solver, "engine_failure": o.Failed, "solver_outputs": o.Outputs,
			"smt_file": fmt.Sprintf("%s/o%05d.smt2", outDir, o.ID), "tags": o.Tags,
		}
		found := tryReplay(pc, o, rep, seed)
		writeJSON(path, rep)
		if found {
			fmt.Printf("VIOLATION property=%s replay=%s\n", *prop, path)
		} else {
			fmt.Printf("VIOLATION property=%s replay=%s no-failing-input-found\n", *prop, path)
		}
	}
	// bounded stand-ins (labelled bounded, never counted as proved): scenario sweeps of the replay harness on the real code
	for i := range pc.Bounded {
		b := &pc.Bounded[i]
		h, ok := harnesses[b.Harness]
		if !ok {
			continue
		}
		budget := 300
		if *tier == "thorough" {
			budget = 3000 // ten times the generated cases of the quick tier (the stated bound is the quick one)
		}
		b.Budget = budget
		req := map[string]interface{}{"obligation": "", "func": b.Func, "seed": seed, "budget": budget}
		out, text, err := runHarness(h, req, "bounded-"+fileName(b.Name))
		if err != nil {
			// a stand-in that cannot run has checked nothing: reported, never passed over silently
			b.Violation = "harness error: " + err.Error() + " " + text
			violations++
			path := filepath.Join(replayDir, fmt.Sprintf("%s-bounded-%s.json", *prop, fileName(b.Name)))
			writeJSON(path, map[string]interface{}{"property": *prop, "obligation": "bounded:" + b.Name, "replay": "the bounded stand-in could not be run", "harness_output": b.Violation})
			fmt.Printf("VIOLATION property=%s replay=%s no-failing-input-found\n", *prop, path)
			continue
		}
		if n, ok := out["tried"].(float64); ok {
			b.Evaluations = int(n)
		}
		if f, _ := out["found"].(bool); f {
			violations++
			b.Violation = fmt.Sprint(out["violation"])
			path := filepath.Join(replayDir, fmt.Sprintf("%s-bounded-%s.json", *prop, fileName(b.Name)))
			writeJSON(path, map[string]interface{}{"property": *prop, "obligation": "bounded:" + b.Name, "replay_result": out, "replay": "counterexample found on the real code (bounded sweep)"})
			fmt.Printf("VIOLATION property=%s replay=%s\n", *prop, path)
		}
	}
	if *tier == "thorough" && os.Getenv("VERIF_NO_MUTANTS") == "" {
		// thorough tier: this property's own must-fail corpus is run against the checker in the same session (overlays, /repo
		// is not touched); the outcome is recorded in the evidence and never changes the verdict about the tree
		mutantResults, mutantsUnexpected = runMutants(*prop, "", false)
		mutantsRun = true
	}
	wall := time.Since(start).Seconds()
	writeEvidence(pc, *tier, seed, res, wall, violations, knownHit)
	fmt.Printf("property %s: %d obligations, %d discharged, %d violations, %d known findings, %.1fs\n", *prop, len(res.relevant), res.discharged, violations, len(knownHit), wall)
	if violations > 0 {
		os.Exit(1)
	}
}

type propResult struct {
	vc         *VC
	relevant   []*Obligation
	discharged int
	bySolver   map[string]int
	solverTime float64
	funcs      []funcInfo
	loadErr    error
	genSecs    float64
	loadSecs   float64
}

func runProperty(pc *PropConfig, tier string, timeout int, outDir string, overlay map[string][]byte) *propResult {
	res := &propResult{bySolver: map[string]int{}}
	t0 := time.Now()
	vc, err := load(pc.Packages, overlay)
	if err != nil {
		res.loadErr = err
		return res
	}
	res.vc = vc
	res.loadSecs = time.Since(t0).Seconds()
	t1 := time.Now()
	targets := vc.selectFunctionsSoft(pc.Functions)
	for _, fn := range targets {
		vc.buildFor(fn)
		vc.verifyFunction(fn, vc.contracts[fn], vc.pkgOf(fn.Pkg.Pkg.Path()))
	}
	// functions named in props.json that have no contract (any more) are failures, not silent skips
	for _, miss := range vc.missingFuncs {
		vc.addObligation(&Obligation{Name: miss + "/engine:no-contract", Func: miss, Kind: "engine", Failed: "function listed for this property has no contract or no longer exists", Tags: []string{pc.ID}})
	}
	// an event whose assertions serve this property must have fired somewhere, otherwise the clause was never checked
	for _, ev := range vc.events {
		tagged := false
		name := ""
		for _, gs := range ev.Stmts {
			if gs.Assert != nil {
				for _, t := range gs.Assert.Tags {
					if t == pc.ID {
						tagged = true
						name = gs.Assert.Name
					}
				}
			}
		}
		if !tagged && ev.In != "" && vc.eventFired[ev] == 0 {
			// an untagged (ghost bookkeeping) event scoped to a function verified here must have fired as well
			if fn, err := vc.resolveFunc(ev.In, vc.pkgOf(ev.Pkg)); err == nil {
				for _, t := range targets {
					if t == fn {
						tagged = true
						name = "ghost-update"
					}
				}
			}
		}
		if tagged && vc.eventFired[ev] == 0 {
			scope := ev.Target
			if ev.In != "" {
				scope += " in " + ev.In
			}
			vc.addObligation(&Obligation{Name: "event/never-fired:on " + ev.Kind + " " + scope + "/" + name, Kind: "engine", Tags: []string{pc.ID},
				Failed: "the event never matched any instruction in the functions verified for this property: its assertion was not checked"})
		}
	}
	res.genSecs = time.Since(t1).Seconds()
	vc.solveAll(outDir, timeout, runtime.NumCPU(), tier == "thorough")
	for _, o := range vc.obls {
		if !relevant(o, pc.ID) {
			continue
		}
		res.relevant = append(res.relevant, o)
		res.solverTime += o.Time
		if o.Status == "proved" {
			res.discharged++
			res.bySolver[o.Solver]++
		}
	}
	for _, fn := range targets {
		fi := funcInfo{Name: fn.String(), File: vc.pos(fn.Pos()), SSAHash: ssaHash(fn)}
		c := vc.contracts[fn]
		fi.Clauses = len(c.Requires) + len(c.Ensures)
		for _, l := range c.Loops {
			fi.Clauses += len(l.Invariants)
		}
		for k := range vc.inlined[fn.String()] {
			fi.Inlined = append(fi.Inlined, k)
		}
		for k := range vc.abstracted[fn.String()] {
			fi.Abstracted = append(fi.Abstracted, k)
		}
		sort.Strings(fi.Inlined)
		sort.Strings(fi.Abstracted)
		res.funcs = append(res.funcs, fi)
	}
	return res
}

func (vc *VC) selectFunctionsSoft(names []string) []*ssa.Function {
	var out []*ssa.Function
	for _, n := range names {
		var found *ssa.Function
		for fn, c := range vc.contracts {
			if c.Pkg == "" {
				continue
			}
			if funcShort(fn) == n {
				found = fn
			}
		}
		if found == nil {
			vc.missingFuncs = append(vc.missingFuncs, n)
			continue
		}
		out = append(out, found)
	}
	return out
}

var (
	mutantResults     []map[string]interface{}
	mutantsUnexpected int
	mutantsRun        bool
)

func writeEvidence(pc *PropConfig, tier string, seed int, res *propResult, wall float64, violations int, knownHit []string) {
	cov := map[string]interface{}{}
	var samples []interface{}
	obls := 0
	if res != nil {
		obls = len(res.relevant)
		kinds := map[string]int{}
		for _, o := range res.relevant {
			kinds[o.Kind]++
		}
		// a few obligations written out
		picked := map[string]bool{}
		for _, o := range res.relevant {
			if len(samples) >= 8 {
				break
			}
			if picked[o.Kind] && len(samples) >= 4 {
				continue
			}
			if o.Kind == "safety" && picked["safety"] {
				continue
			}
			picked[o.Kind] = true
			samples = append(samples, map[string]interface{}{
				"obligation": o.Name, "kind": o.Kind, "site": o.Site, "path": o.Trail, "smt_bytes": len(o.SMT),
				"status": o.Status, "solver": o.Solver, "seconds": round3(o.Time), "tags": o.Tags,
			})
		}
		// obligations attributable to an open known finding (the listed obligation, its other paths/conjuncts and the
		// canaries folded into it) are reported separately: they are not part of what this run claims as proved
		knownObls := 0
		if violations == 0 && len(knownHit) > 0 {
			knownObls = obls - res.discharged
		}
		cov["obligations"] = obls - knownObls
		cov["discharged"] = res.discharged
		cov["known_finding_obligations"] = knownObls
		cov["explanation"] = "obligations = verification conditions generated for this property from /repo's working tree in this run, minus those attributed to an open known finding (known_finding_obligations, reported by a KNOWN-FINDING line); discharged = those answered unsat by a solver (or closed by the simplifier / satisfiable canaries)"
		cov["discharged_by_backend"] = res.bySolver
		// the slowest obligations of this run (a query near the per-obligation budget is the unstable kind)
		var slow []*Obligation
		for _, o := range res.relevant {
			if o.Kind != "canary" { // canaries run to their own fixed budget by design
				slow = append(slow, o)
			}
		}
		sort.Slice(slow, func(i, j int) bool { return slow[i].Time > slow[j].Time })
		var slowest []map[string]interface{}
		for i := 0; i < len(slow) && i < 5; i++ {
			slowest = append(slowest, map[string]interface{}{"obligation": slow[i].Name, "seconds": round3(slow[i].Time), "solver": slow[i].Solver})
		}
		cov["slowest_obligations"] = slowest
		cov["obligations_by_kind"] = kinds
		cov["solver_seconds"] = round3(res.solverTime)
		cov["load_seconds"] = round3(res.loadSecs)
		cov["vcgen_seconds"] = round3(res.genSecs)
		cov["functions_under_contract"] = res.funcs
		if res.vc != nil {
			var trusted []string
			for fn, c := range res.vc.contracts {
				if c.Pkg == "" {
					trusted = append(trusted, "assumed contract: "+fn.String())
				}
			}
			verified := map[string]bool{}
			for _, fi := range res.funcs {
				verified[fi.Name] = true
			}
			for fn := range res.vc.usedRepoContracts {
				if !verified[fn.String()] {
					trusted = append(trusted, "contract in /repo applied at call sites but NOT verified by this check (assumed here): "+fn.String())
				}
			}
			for k := range res.vc.ifaceCon {
				trusted = append(trusted, "assumed interface contract: "+k)
			}
			for k := range res.vc.fieldCon {
				trusted = append(trusted, "assumed func-field contract: "+k)
			}
			for k := range res.vc.effectFree {
				trusted = append(trusted, "assumed effect-free (not modelled): "+k)
			}
			sort.Strings(trusted)
			cov["assumed_contracts"] = trusted
		}
	}
	cov["samples"] = samples
	if len(samples) == 0 {
		cov["samples"] = []interface{}{"no obligation generated"}
	}
	cov["checker_cmd"] = fmt.Sprintf("cd /verif && ./check %s %s   (govc: go/ssa weakest-precondition style VC generation from /repo's working tree with -tags verif; z3 4.8.12, z3 5.1.0, cvc5 raced per obligation)", pc.ID, tier)
	cov["trusted_base"] = []string{
		"govc VC generator (/verif/engine), mitigated by canaries and the must-fail self-test corpus",
		"golang.org/x/tools v0.29.0 go/packages + go/ssa",
		"z3 4.8.12, z3 5.1.0, cvc5 1.0 (an obligation is discharged when one of them answers unsat without any (error ...) output)",
		"assumed contracts in /verif/trusted/*.spec and interface/field contracts in the contract files (listed under assumed_contracts)",
		"machine integers treated as mathematical integers; float64 as reals; strings as uninterpreted identifiers",
		"errgroup.Group.Go(f) executed synchronously (fork/join only); sync.Mutex as no-op; data-race freedom not verified",
		"map length as an uninterpreted cardinality with insert/delete/empty axioms and the finite-set lemma (equal cardinality + subset => equal)",
	}
	if mutantsRun {
		cov["checker_selftest"] = map[string]interface{}{
			"what":       "deliberately broken variants of the functions under contract (and harmless edits) applied as overlays: a variant counts as detected when the expected named obligation fails",
			"entries":    len(mutantResults),
			"unexpected": mutantsUnexpected,
			"results":    mutantResults,
		}
	}
	cov["known_findings_hit"] = knownHit
	if len(pc.Bounded) > 0 {
		cov["bounded"] = pc.Bounded
	}
	ev := map[string]interface{}{
		"property_id": pc.ID, "tier": tier, "seed": seed, "level": "proof", "coverage": cov,
		"assumptions": append([]string{pc.Note}, pc.Assumptions...), "wall_s": round3(wall), "violations": violations,
	}
	dir := filepath.Join(verifDir, "evidence")
	if d := os.Getenv("VERIF_EVIDENCE_DIR"); d != "" {
		// runs against a deliberately changed tree (seeded changes) must not overwrite the evidence of the real tree
		dir = d
		os.MkdirAll(dir, 0o755)
	}
	writeJSON(filepath.Join(dir, pc.ID+".json"), ev)
}

func round3(f float64) float64 { return float64(int(f*1000+0.5)) / 1000 }

// tryReplay is filled in by replay.go

// fileName: a file-system safe, length-limited name for a replay file (long stand-in names are cut and made unique by a digest)
func fileName(s string) string {
	n := sanitize(s)
	if len(n) <= 120 {
		return n
	}
	h := sha256.Sum256([]byte(s))
	return n[:120] + fmt.Sprintf("_%x", h[:4])
}
