package main

import (
	"fmt"
	"os"
	"strings"
)

// debug helper: govc leaves <pkgpattern> <Type>
func cmdLeaves(args []string) {
	vc, err := load([]string{args[0]}, nil)
	if err != nil {
		fmt.Fprintln(os.Stderr, err)
		os.Exit(2)
	}
	nt, err := vc.resolveNamed(args[1], nil)
	if err != nil {
		fmt.Fprintln(os.Stderr, err)
		os.Exit(2)
	}
	ls := vc.leaves(nt)
	fmt.Println(len(ls), "leaves")
	if len(args) > 2 {
		for _, l := range ls {
			if strings.Contains(l.Path, args[2]) {
				fmt.Println(l.Path, l.Sort)
			}
		}
	}
}
