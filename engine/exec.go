package main

// Symbolic execution of go/ssa functions: path enumeration with loops cut at invariants.

import (
	"os"
	"fmt"
	"go/ast"
	"go/constant"
	"go/token"
	"go/types"
	"sort"
	"strings"

	"golang.org/x/tools/go/packages"
	"golang.org/x/tools/go/ssa"
)

type deferred struct {
	call  *ssa.CallCommon
	fn    Val
	args  []Val
	instr ssa.Instruction
}

type Frame struct {
	fn     *ssa.Function
	env    map[ssa.Value]Val
	names  map[string]nameEntry
	parent *Frame
	// return linkage for inlined frames
	retBlock *ssa.BasicBlock
	retIdx   int
	retInstr ssa.Instruction // call instruction in the parent (nil for deferred re-exec)
	retReexec bool
	defers   []deferred
	seen     map[*ssa.BasicBlock]bool
	contract *Contract
	pkg      *packages.Package
	depth    int
	entrySnap map[string]string
	entryAlloc string
	// per-loop bookkeeping
	visited map[*ssa.BasicBlock]string // rangeiter loop head -> logical name of visited set
	results []Val
}

func (fr *Frame) clone() *Frame {
	if fr == nil {
		return nil
	}
	n := *fr
	n.env = make(map[ssa.Value]Val, len(fr.env))
	for k, v := range fr.env {
		n.env[k] = v
	}
	n.names = make(map[string]nameEntry, len(fr.names))
	for k, v := range fr.names {
		n.names[k] = v
	}
	n.seen = make(map[*ssa.BasicBlock]bool, len(fr.seen))
	for k, v := range fr.seen {
		n.seen[k] = v
	}
	n.visited = make(map[*ssa.BasicBlock]string, len(fr.visited))
	for k, v := range fr.visited {
		n.visited[k] = v
	}
	n.defers = append([]deferred(nil), fr.defers...)
	n.parent = fr.parent.clone()
	return &n
}

func (fr *Frame) lookupName(name string) (nameEntry, bool) {
	for f := fr; f != nil; f = f.parent {
		// a variable with a single SSA definition in the whole function is bound to it as soon as it is defined
		if v, ok := singleDefs(f.fn)[name]; ok {
			if val, ok2 := f.env[v]; ok2 {
				return nameEntry{V: val, T: v.Type()}, true
			}
		}
		if ne, ok := f.names[name]; ok {
			return ne, true
		}
	}
	return nameEntry{}, false
}

var singleDefCache = map[*ssa.Function]map[string]ssa.Value{}

func singleDefs(fn *ssa.Function) map[string]ssa.Value {
	if m, ok := singleDefCache[fn]; ok {
		return m
	}
	vals := map[string]map[ssa.Value]bool{}
	bad := map[string]bool{}
	for _, b := range fn.Blocks {
		for _, in := range b.Instrs {
			d, ok := in.(*ssa.DebugRef)
			if !ok {
				continue
			}
			id, ok := d.Expr.(*ast.Ident)
			if !ok {
				continue
			}
			if tv, isVar := d.Object().(*types.Var); !isVar || tv.IsField() {
				continue
			}
			if d.IsAddr {
				bad[id.Name] = true
				continue
			}
			if c, isConst := d.X.(*ssa.Const); isConst {
				if c.Value == nil {
					continue // zero value reported at the declaration
				}
				bad[id.Name] = true
				continue
			}
			if _, isParam := d.X.(*ssa.Parameter); isParam {
				bad[id.Name] = true
				continue
			}
			if vals[id.Name] == nil {
				vals[id.Name] = map[ssa.Value]bool{}
			}
			vals[id.Name][d.X] = true
		}
	}
	out := map[string]ssa.Value{}
	for n, s := range vals {
		if bad[n] || len(s) != 1 {
			continue
		}
		for v := range s {
			if _, isPhi := v.(*ssa.Phi); isPhi {
				continue
			}
			out[n] = v
		}
	}
	singleDefCache[fn] = out
	return out
}

type loopInfo struct {
	head    *ssa.BasicBlock
	body    map[*ssa.BasicBlock]bool
	ordinal int
	kind    string // rangeindex | rangeiter | for
	pos     token.Pos
}

// ---------- loop analysis ----------

func (vc *VC) loopsOf(fn *ssa.Function) map[*ssa.BasicBlock]*loopInfo {
	if l, ok := vc.loopHeads[fn]; ok {
		return l
	}
	loops := map[*ssa.BasicBlock]*loopInfo{}
	for _, b := range fn.Blocks {
		for _, s := range b.Succs {
			if s.Dominates(b) {
				li := loops[s]
				if li == nil {
					li = &loopInfo{head: s, body: map[*ssa.BasicBlock]bool{s: true}}
					loops[s] = li
				}
				// natural loop: nodes reaching b without passing through s
				var stack []*ssa.BasicBlock
				if !li.body[b] {
					li.body[b] = true
					stack = append(stack, b)
				}
				for len(stack) > 0 {
					n := stack[len(stack)-1]
					stack = stack[:len(stack)-1]
					for _, p := range n.Preds {
						if !li.body[p] {
							li.body[p] = true
							stack = append(stack, p)
						}
					}
				}
			}
		}
	}
	// ordinals: match against AST loops by source position
	var astLoops []ast.Node
	if fn.Syntax() != nil {
		ast.Inspect(fn.Syntax(), func(n ast.Node) bool {
			switch n.(type) {
			case *ast.ForStmt, *ast.RangeStmt:
				astLoops = append(astLoops, n)
			case *ast.FuncLit:
				if n != fn.Syntax() {
					return false
				}
			}
			return true
		})
	}
	// ordinals: SSA loop heads in block order correspond to the AST loop statements in source (pre-)order; when
	// the counts differ (a loop without back edge), fall back to matching by source position
	var heads []*loopInfo
	for _, li := range loops {
		heads = append(heads, li)
	}
	sort.Slice(heads, func(i, j int) bool { return heads[i].head.Index < heads[j].head.Index })
	if len(heads) == len(astLoops) {
		for i, li := range heads {
			li.ordinal = i + 1
			li.pos = astLoops[i].Pos()
		}
	} else {
		for _, li := range heads {
			best := -1
			for i, al := range astLoops {
				ok := true
				any := false
				for b := range li.body {
					for _, in := range b.Instrs {
						switch in.(type) {
						case *ssa.DebugRef, *ssa.Phi:
							continue
						}
						p := in.Pos()
						if p == token.NoPos {
							continue
						}
						any = true
						if p < al.Pos() || p > al.End() {
							ok = false
						}
					}
				}
				if ok && any {
					if best < 0 || (astLoops[best].Pos() <= al.Pos() && al.End() <= astLoops[best].End()) {
						best = i
					}
				}
			}
			li.ordinal = best + 1
			if best >= 0 {
				li.pos = astLoops[best].Pos()
			}
		}
	}
	for _, li := range heads {
		switch {
		case strings.HasPrefix(li.head.Comment, "rangeindex"):
			li.kind = "rangeindex"
		case strings.HasPrefix(li.head.Comment, "rangeiter"):
			li.kind = "rangeiter"
		default:
			li.kind = "for"
		}
	}
	vc.loopHeads[fn] = loops
	return loops
}

// ---------- running a function under contract ----------

type engineFail struct{ msg string }

func (vc *VC) verifyFunction(fn *ssa.Function, con *Contract, pkg *packages.Package) {
	vc.curFunc = fn
	vc.pathCount = 0
	st := &State{vc: vc, arr: map[string]string{}, declared: map[string]bool{}, written: map[string]bool{}, known: map[string]bool{}}
	st.allocBase = "alloc!0"
	st.declare("alloc!0", SInt)
	st.assume("(>= alloc!0 1)")
	fr := &Frame{fn: fn, env: map[ssa.Value]Val{}, names: map[string]nameEntry{}, seen: map[*ssa.BasicBlock]bool{}, visited: map[*ssa.BasicBlock]string{}, contract: con, pkg: pkg}
	defer func() {
		if r := recover(); r != nil {
			msg := ""
			switch e := r.(type) {
			case unsupportedErr:
				msg = e.Error()
			case specErr:
				msg = "contract error: " + e.msg
			case engineFail:
				msg = e.msg
			default:
				panic(r)
			}
			vc.addObligation(&Obligation{Name: vc.oblName(fn, "engine", "error"), Func: fn.String(), Kind: "engine", Failed: msg, Tags: contractTags(con), Site: vc.pos(fn.Pos())})
		}
	}()
	for _, p := range fn.Params {
		v := st.freshVal("p_"+p.Name(), p.Type())
		fr.env[p] = v
		fr.names[p.Name()] = nameEntry{V: v, T: p.Type()}
		// entry value under the name <param>0 (Gobra style): parameters can be reassigned or shadowed by a local of the same name
		fr.names[p.Name()+"0"] = nameEntry{V: v, T: p.Type()}
	}
	if fn.Signature.Recv() != nil && len(fn.Params) > 0 {
		fr.names["self"] = nameEntry{V: fr.env[fn.Params[0]], T: fn.Params[0].Type()}
	}
	for i, fv := range fn.FreeVars {
		v := st.freshVal("fv_"+fv.Name(), fv.Type())
		fr.env[fv] = v
		_ = i
		fr.names[fv.Name()] = nameEntry{V: v, T: fv.Type(), IsAddr: true}
	}
	st.old = st.snapshot()
	fr.entrySnap = st.old
	fr.entryAlloc = "alloc!0"
	// assume requires
	env := vc.specEnv(st, fr, nil)
	for _, r := range con.Requires {
		st.assume(env.evalBool(r.E))
	}
	// spec axioms
	for _, ax := range vc.axioms {
		st.assume(env.evalBool(ax.E))
	}
	for _, gs := range con.AtEntry {
		vc.runGhost(st, fr, gs, nil, fn.Pos())
	}
	// canary: requires must not be contradictory
	vc.canary(st, fr, "requires_satisfiable", fn.Pos())
	if len(fn.Blocks) == 0 {
		panic(unsupported("function without body"))
	}
	vc.runBlock(st, fr, fn.Blocks[0], nil)
	vc.funcsDone = append(vc.funcsDone, fn.String())
}

func contractTags(c *Contract) []string {
	seen := map[string]bool{}
	var out []string
	if c == nil {
		return nil
	}
	add := func(cl []*Clause) {
		for _, x := range cl {
			for _, t := range x.Tags {
				if !seen[t] {
					seen[t] = true
					out = append(out, t)
				}
			}
		}
	}
	add(c.Ensures)
	add(c.Requires)
	for _, l := range c.Loops {
		add(l.Invariants)
	}
	sort.Strings(out)
	return out
}

func (vc *VC) pos(p token.Pos) string {
	if p == token.NoPos {
		return ""
	}
	ps := vc.prog.Fset.Position(p)
	return fmt.Sprintf("%s:%d", strings.TrimPrefix(ps.Filename, "/repo/"), ps.Line)
}

func funcShort(fn *ssa.Function) string {
	s := fn.String()
	s = strings.ReplaceAll(s, "tkestack.io/kvass/pkg/", "")
	s = strings.ReplaceAll(s, "(*", "")
	s = strings.ReplaceAll(s, ")", "")
	s = strings.ReplaceAll(s, "(", "")
	return s
}

func (vc *VC) oblName(fn *ssa.Function, kind, clause string) string {
	return funcShort(fn) + "/" + kind + ":" + clause
}

func (vc *VC) specEnv(st *State, fr *Frame, extra map[string]nameEntry) *SpecEnv {
	top := fr
	for top.parent != nil {
		top = top.parent
	}
	env := &SpecEnv{st: st, old: top.entrySnap, oldAlloc: top.entryAlloc, pkg: fr.pkg}
	env.lookup = func(name string) (nameEntry, bool) {
		if extra != nil {
			if ne, ok := extra[name]; ok {
				return ne, true
			}
		}
		return fr.lookupName(name)
	}
	return env
}

// emit builds the SMT query for goal under the state's assumptions.
func (vc *VC) emit(st *State, o *Obligation, goal string) {
	o.Trail = append([]string(nil), st.trail...)
	if o.Expect == "" {
		o.Expect = "unsat"
	}
	if goal == "true" {
		o.Trivial = true
		o.Status = "proved"
		o.Solver = "simplifier"
		vc.addObligation(o)
		return
	}
	var b strings.Builder
	b.WriteString("(set-option :produce-models true)\n(set-logic ALL)\n")
	for fnName, ks := range vc.needCard {
		fmt.Fprintf(&b, "(declare-fun %s ((Array %s Bool)) Int)\n", fnName, ks)
	}
	for _, u := range vc.ufList() {
		b.WriteString(u + "\n")
	}
	for _, d := range st.decls {
		b.WriteString(d + "\n")
	}
	for fnName, ks := range vc.needCard {
		// card axioms: non-negative; empty <=> 0; insertion / deletion
		fmt.Fprintf(&b, "(assert (forall ((s (Array %s Bool))) (! (>= (%s s) 0) :pattern ((%s s)))))\n", ks, fnName, fnName)
		fmt.Fprintf(&b, "(assert (= (%s ((as const (Array %s Bool)) false)) 0))\n", fnName, ks)
		fmt.Fprintf(&b, "(assert (forall ((s (Array %s Bool)) (k %s)) (! (=> (select s k) (> (%s s) 0)) :pattern ((%s s) (select s k)))))\n", ks, ks, fnName, fnName)
		fmt.Fprintf(&b, "(assert (forall ((s (Array %s Bool)) (k %s)) (! (= (%s (store s k true)) (ite (select s k) (%s s) (+ (%s s) 1))) :pattern ((%s (store s k true))))))\n", ks, ks, fnName, fnName, fnName, fnName)
		fmt.Fprintf(&b, "(assert (forall ((s (Array %s Bool)) (k %s)) (! (= (%s (store s k false)) (ite (select s k) (- (%s s) 1) (%s s))) :pattern ((%s (store s k false))))))\n", ks, ks, fnName, fnName, fnName, fnName)
		fmt.Fprintf(&b, "(assert (forall ((s (Array %s Bool))) (! (=> (= (%s s) 0) (= s ((as const (Array %s Bool)) false))) :pattern ((%s s)))))\n", ks, fnName, ks, fnName)
		// finite sets: a subset with the same cardinality is the whole set (assumed lemma, listed in the trusted base)
		fmt.Fprintf(&b, "(assert (forall ((a (Array %s Bool)) (b (Array %s Bool))) (! (=> (and (= (%s a) (%s b)) (forall ((k %s)) (=> (select a k) (select b k)))) (= a b)) :pattern ((%s a) (%s b)))))\n", ks, ks, fnName, fnName, ks, fnName, fnName)
	}
	for _, a := range st.asm {
		b.WriteString("(assert " + a + ")\n")
	}
	b.WriteString("(assert (not " + goal + "))\n(check-sat)\n")
	o.SMT = b.String()
	vc.addObligation(o)
}

func (vc *VC) ufList() []string {
	var out []string
	var names []string
	for n := range vc.ufs {
		names = append(names, n)
	}
	sort.Strings(names)
	for _, n := range names {
		u := vc.ufs[n]
		var ps []string
		for _, p := range u.Params {
			ps = append(ps, string(ghostSort(p)))
		}
		out = append(out, fmt.Sprintf("(declare-fun uf_%s (%s) %s)", u.Name, strings.Join(ps, " "), ghostSort(u.Result)))
	}
	return out
}

// check emits an obligation and then assumes the goal (assert-then-assume).
func (vc *VC) check(st *State, fr *Frame, kind, clause string, tags []string, goal string, site token.Pos) {
	top := fr
	for top.parent != nil {
		top = top.parent
	}
	if kind == "safety" {
		if st.known[goal] {
			return
		}
		st.known[goal] = true
	}
	o := &Obligation{Name: vc.oblName(top.fn, kind, clause), Func: top.fn.String(), Kind: kind, Tags: tags, Site: vc.pos(site), Text: vc.curText}
	vc.emit(st, o, goal)
	st.assume(goal)
}

// checkClause evaluates a clause in env, splitting conjunctions.
func (vc *VC) checkClause(st *State, fr *Frame, env *SpecEnv, kind string, cl *Clause, prefix string, site token.Pos) {
	parts := splitConj(vc.expandPreds(cl.E, 0))
	for i, p := range parts {
		name := prefix + cl.Name
		if len(parts) > 1 {
			name = fmt.Sprintf("%s#%d", name, i+1)
		}
		var goal string
		func() {
			defer func() {
				if r := recover(); r != nil {
					if se, ok := r.(specErr); ok {
						top := fr
						for top.parent != nil {
							top = top.parent
						}
						vc.addObligation(&Obligation{Name: vc.oblName(top.fn, kind, name), Func: top.fn.String(), Kind: kind, Tags: cl.Tags, Failed: "contract error: " + se.msg + " in " + p.String(), Site: vc.pos(site)})
						goal = ""
						return
					}
					panic(r)
				}
			}()
			goal = env.evalBool(p)
		}()
		if goal != "" {
			vc.curText = p.String()
			vc.check(st, fr, kind, name, cl.Tags, goal, site)
			vc.curText = ""
		}
	}
}

func (vc *VC) runGhost(st *State, fr *Frame, gs *GhostStmt, extra map[string]nameEntry, site token.Pos) {
	env := vc.specEnv(st, fr, extra)
	switch {
	case gs.Assert != nil:
		vc.checkClause(st, fr, env, "event", gs.Assert, gs.Assert.Owner+"/", site)
	case gs.Assume != nil:
		st.assume(env.evalBool(gs.Assume))
	default:
		v, _ := env.eval(gs.Value)
		switch tgt := gs.Target.(type) {
		case *ESel:
			ov, ot := env.eval(tgt.X)
			el, ok := deref(ot)
			if !ok {
				sfail("ghost assignment target must be ptr.ghostfield")
			}
			g, ok := vc.gfields[typeKey(el)+"."+tgt.F]
			if !ok {
				sfail("ghost assignment to non-ghost field %s", tgt.F)
			}
			s := ghostSort(g.GoTyp)
			name := "G_" + typeKey(el) + "__" + g.Field
			a := st.array(name, arrSort(SInt, s))
			var term string
			switch x := v.(type) {
			case Sc:
				term = x.T
			case SetV:
				term = x.T
			default:
				sfail("ghost assignment of unsupported value")
			}
			st.setArray(name, arrSort(SInt, s), sStore(a, ov.(Sc).T, term))
		case *EIdent:
			g, ok := vc.gglobals[tgt.Name]
			if !ok {
				sfail("ghost assignment to unknown global %s", tgt.Name)
			}
			s := ghostSort(g.GoTyp)
			var term string
			switch x := v.(type) {
			case Sc:
				term = x.T
			case SetV:
				term = x.T
			}
			st.array("GG_"+g.Name, s)
			st.setArray("GG_"+g.Name, s, term)
		default:
			sfail("bad ghost assignment target")
		}
	}
}

// ---------- block execution ----------

func (vc *VC) runBlock(st *State, fr *Frame, b *ssa.BasicBlock, pred *ssa.BasicBlock) {
	vc.pathCount++
	if vc.pathCount > vc.maxPaths {
		panic(engineFail{fmt.Sprintf("path cap %d exceeded", vc.maxPaths)})
	}
	loops := vc.loopsOf(fr.fn)
	li := loops[b]
	// phis
	phiVals := map[*ssa.Phi]Val{}
	if pred != nil {
		predIdx := -1
		for i, p := range b.Preds {
			if p == pred {
				predIdx = i
				break
			}
		}
		for _, in := range b.Instrs {
			phi, ok := in.(*ssa.Phi)
			if !ok {
				break
			}
			phiVals[phi] = vc.value(st, fr, phi.Edges[predIdx])
		}
	}
	if li != nil {
		if fr.parent != nil || fr.contract == nil {
			if fr.contract == nil {
				panic(unsupported(fmt.Sprintf("loop in inlined function %s (needs a contract)", fr.fn)))
			}
		}
		ls := fr.contract.Loops[li.ordinal]
		// bind phis for invariant evaluation
		bindPhis := func(vals map[*ssa.Phi]Val) {
			for phi, v := range vals {
				fr.env[phi] = v
				if phi.Comment != "" && phi.Comment != "rangeindex" {
					fr.names[phi.Comment] = nameEntry{V: v, T: phi.Type()}
				}
				if phi.Comment == "rangeindex" {
					sc := v.(Sc)
					fr.names[fmt.Sprintf("idx%d", li.ordinal)] = nameEntry{V: intv("(+ " + sc.T + " 1)"), T: tInt}
				}
			}
			if li.kind == "rangeiter" {
				if vis, ok := fr.visited[b]; ok {
					fr.names[fmt.Sprintf("visited%d", li.ordinal)] = nameEntry{V: SetV{T: st.array(vis, vc.arrSorts[vis]), K: SInt}, T: &setType{K: tInt}}
				}
				// range<k>: the key set of the map when the range statement started
				for _, in := range b.Instrs {
					if nx, ok := in.(*ssa.Next); ok {
						if it, ok := fr.env[nx.Iter].(MapIterV); ok {
							fr.names[fmt.Sprintf("range%d", li.ordinal)] = nameEntry{V: SetV{T: it.D0, K: SInt}, T: &setType{K: tInt}}
						}
					}
				}
			}
		}
		if fr.seen[b] {
			// back edge: invariant preserved
			bindPhis(phiVals)
			st.trail = append(st.trail, fmt.Sprintf("back edge to loop %d", li.ordinal))
			if ls != nil {
				env := vc.specEnv(st, fr, nil)
				for _, inv := range ls.Invariants {
					vc.checkClause(st, fr, env, "invariant-preserved", inv, "", li.pos)
				}
			}
			vc.checkLoopFrames(st, fr, li, "invariant-preserved")
			return
		}
		// first arrival
		if li.kind == "rangeiter" {
			// the iterator was created by the Range instruction in the predecessor; set up visited set
			name := fmt.Sprintf("VIS_%s_%d", sanitize(funcShort(fr.fn)), li.ordinal)
			vc.arrSorts[name] = arrSort(SInt, SBool)
			st.arr[name] = "((as const (Array Int Bool)) false)"
			fr.visited[b] = name
		}
		bindPhis(phiVals)
		st.trail = append(st.trail, fmt.Sprintf("enter loop %d", li.ordinal))
		if ls != nil {
			env := vc.specEnv(st, fr, nil)
			for _, inv := range ls.Invariants {
				vc.checkClause(st, fr, env, "invariant-entry", inv, "", li.pos)
			}
		}
		// havoc (with automatic frame invariants for arrays the contract does not allow to change)
		vc.checkLoopFrames(st, fr, li, "invariant-entry")
		vc.havocLoop(st, fr, li)
		fr.seen[b] = true
		fresh := map[*ssa.Phi]Val{}
		for phi := range phiVals {
			fresh[phi] = st.freshVal("phi_"+phi.Comment, phi.Type())
		}
		bindPhis(fresh)
		for phi, v := range fresh {
			if phi.Comment == "rangeindex" {
				// -1 <= idx < len  (holds by construction of the rangeindex loop)
				st.assume("(<= (- 1) " + v.(Sc).T + ")")
				for _, in := range b.Instrs {
					if bo, ok := in.(*ssa.BinOp); ok && bo.Op == token.LSS {
						if inc, ok := bo.X.(*ssa.BinOp); ok && inc.X == phi {
							if lv, ok := fr.env[bo.Y]; ok {
								st.assume("(< " + v.(Sc).T + " " + lv.(Sc).T + ")")
							}
						}
					}
				}
			}
		}
		if li.kind == "rangeiter" {
			// visited is an arbitrary subset at an arbitrary iteration
			st.havocArray(fr.visited[b])
			bindPhis(nil)
		}
		if ls != nil {
			env := vc.specEnv(st, fr, nil)
			for _, inv := range ls.Invariants {
				func() {
					defer func() {
						if r := recover(); r != nil {
							if _, ok := r.(specErr); ok {
								return // already reported at entry check
							}
							panic(r)
						}
					}()
					st.assume(env.evalBool(inv.E))
				}()
			}
			vc.canary(st, fr, fmt.Sprintf("loop%d_invariant_satisfiable", li.ordinal), li.pos)
		}
	} else {
		for phi, v := range phiVals {
			fr.env[phi] = v
			if phi.Comment != "" {
				fr.names[phi.Comment] = nameEntry{V: v, T: phi.Type()}
			}
		}
	}
	vc.runInstrs(st, fr, b, 0)
}

// havocLoop havocs every heap array the loop body may write.
func (vc *VC) havocLoop(st *State, fr *Frame, li *loopInfo) {
	names, allocs := vc.loopArrays(st, fr, li)
	if allocs {
		nb := st.fresh("alloc", SInt)
		st.assume(fmt.Sprintf("(>= %s %s)", nb, st.allocTerm()))
		st.allocBase = nb
		st.allocOff = 0
	}
	for _, a := range names {
		sym := st.havocArray(a)
		st.wellTyped(a, sym, st.allocTerm())
		if goal := vc.frameFact(st, fr, a, sym); goal != "" {
			st.assume(goal)
		}
	}
}

// loopArrays computes the heap arrays a loop body may write.
func (vc *VC) loopArrays(st *State, fr *Frame, li *loopInfo) ([]string, bool) {
	arrays := map[string]bool{}
	allocs := false
	var blocks []*ssa.BasicBlock
	for b := range li.body {
		blocks = append(blocks, b)
	}
	sort.Slice(blocks, func(i, j int) bool { return blocks[i].Index < blocks[j].Index })
	for _, b := range blocks {
		for _, in := range b.Instrs {
			vc.writesOf(st, fr, in, arrays, &allocs, 0, map[*ssa.Function]bool{})
		}
	}
	var names []string
	for a := range arrays {
		names = append(names, a)
	}
	sort.Strings(names)
	return names, allocs
}

// frameFact: objects allocated before function entry that the contract does not allow to change keep
// their entry value in array a (an automatically generated, checked, loop invariant).
func (vc *VC) frameFact(st *State, fr *Frame, a string, sym string) string {
	con := fr.contract
	if con == nil || !con.HasMod || strings.HasPrefix(a, "VIS_") {
		return ""
	}
	if _, ok := vc.arrSorts[a]; !ok {
		return ""
	}
	init := a + "!0"
	if sym == init {
		return "true"
	}
	pol := vc.modPolicyOf(con)[a]
	if strings.HasPrefix(a, "GG_") {
		if pol != nil {
			return ""
		}
		return sEq(sym, init)
	}
	vc.counter++
	o := fmt.Sprintf("o!%d", vc.counter)
	if pol == nil {
		return fmt.Sprintf("(forall ((%s Int)) (! (=> (and (<= 0 %s) (< %s alloc!0)) (= (select %s %s) (select %s %s))) :pattern ((select %s %s))))", o, o, o, sym, o, init, o, sym, o)
	}
	if pol.unrestricted {
		return ""
	}
	env := vc.specEnv(st, fr, nil)
	env.inOld = true
	return fmt.Sprintf("(forall ((%s Int)) (! (=> (and (<= 0 %s) (< %s alloc!0) %s) (= (select %s %s) (select %s %s))) :pattern ((select %s %s))))", o, o, o, notInSet(env, o, pol.at), sym, o, init, o, sym, o)
}

func (vc *VC) checkLoopFrames(st *State, fr *Frame, li *loopInfo, kind string) {
	if fr.contract == nil || !fr.contract.HasMod {
		return
	}
	names, _ := vc.loopArrays(st, fr, li)
	for _, a := range names {
		sym, ok := st.arr[a]
		if !ok {
			continue
		}
		goal := vc.frameFact(st, fr, a, sym)
		if goal == "" || goal == "true" {
			continue
		}
		vc.check(st, fr, kind, fmt.Sprintf("loop%d/auto-frame:%s", li.ordinal, a), contractTags(fr.contract), goal, li.pos)
	}
}

// writesOf over-approximates the heap arrays written by an instruction (syntactic, type based).
func (vc *VC) writesOf(st *State, fr *Frame, in ssa.Instruction, arrays map[string]bool, allocs *bool, depth int, visiting map[*ssa.Function]bool) {
	addLeaves := func(kind string, owner string, prefix string, t types.Type) {
		for _, l := range vc.leaves(t) {
			p := joinPath(prefix, l.Path)
			if kind == "E" {
				n, _ := vc.elemArr(owner, p, l)
				arrays[n] = true
			} else {
				n, _ := vc.fieldArr(owner, p, l)
				arrays[n] = true
			}
		}
	}
	addMap := func(m *types.Map) {
		n, _ := vc.mapDomArr(m)
		arrays[n] = true
		for _, l := range vc.leaves(m.Elem()) {
			n, _ := vc.mapValArr(m, l)
			arrays[n] = true
		}
	}
	var addrTarget func(v ssa.Value, t types.Type)
	addrTarget = func(v ssa.Value, t types.Type) {
		switch a := v.(type) {
		case *ssa.FieldAddr:
			// find root
			prefix := ""
			var cur ssa.Value = a
			for {
				fa, ok := cur.(*ssa.FieldAddr)
				if !ok {
					break
				}
				stt := fa.X.Type().Underlying().(*types.Pointer).Elem().Underlying().(*types.Struct)
				prefix = joinPath(stt.Field(fa.Field).Name(), prefix)
				cur = fa.X
			}
			if ia, ok := cur.(*ssa.IndexAddr); ok {
				var el types.Type
				switch xt := ia.X.Type().Underlying().(type) {
				case *types.Slice:
					el = xt.Elem()
				case *types.Pointer:
					el = xt.Elem().Underlying().(*types.Array).Elem()
				}
				addLeaves("E", typeKey(el), prefix, t)
				return
			}
			root := cur.Type().Underlying().(*types.Pointer).Elem()
			addLeaves("F", ownerKey(root), prefix, t)
		case *ssa.IndexAddr:
			var el types.Type
			switch xt := a.X.Type().Underlying().(type) {
			case *types.Slice:
				el = xt.Elem()
			case *types.Pointer:
				el = xt.Elem().Underlying().(*types.Array).Elem()
			}
			addLeaves("E", typeKey(el), "", t)
		default:
			root := v.Type().Underlying().(*types.Pointer).Elem()
			addLeaves("F", ownerKey(root), "", t)
		}
	}
	switch x := in.(type) {
	case *ssa.Store:
		addrTarget(x.Addr, x.Val.Type())
	case *ssa.MapUpdate:
		addMap(x.Map.Type().Underlying().(*types.Map))
		vc.eventWrites(x.Map, "insert", arrays)
	case *ssa.Alloc:
		*allocs = true
		// zero initialisation writes the object's fields
		el := x.Type().Underlying().(*types.Pointer).Elem()
		if arr, ok := el.Underlying().(*types.Array); ok {
			addLeaves("E", typeKey(arr.Elem()), "", arr.Elem())
		} else {
			addLeaves("F", ownerKey(el), "", el)
		}
	case *ssa.MakeMap:
		*allocs = true
		addMap(x.Type().Underlying().(*types.Map))
	case *ssa.MakeSlice:
		*allocs = true
		el := x.Type().Underlying().(*types.Slice).Elem()
		addLeaves("E", typeKey(el), "", el)
	case *ssa.MakeClosure:
	case *ssa.Next:
	case *ssa.Defer:
		vc.callWrites(st, fr, &x.Call, arrays, allocs, depth, visiting)
	case *ssa.Go:
		panic(unsupported("go statement"))
	case *ssa.Send:
		if _, field, _ := mapOwner(x.Chan); field != "" {
			for _, ev := range vc.events {
				if ev.Kind != "send" {
					continue
				}
				if full, err := vc.qualify(ev.Target, vc.pkgOf(ev.Pkg), 2); err == nil && full == field {
					for _, gs := range ev.Stmts {
						if id, ok := gs.Target.(*EIdent); ok {
							arrays["GG_"+id.Name] = true
						}
					}
				}
			}
		}
	case *ssa.Call:
		vc.callWrites(st, fr, &x.Call, arrays, allocs, depth, visiting)
	}
}

func (vc *VC) eventWrites(mapv ssa.Value, kind string, arrays map[string]bool) {
	// ghost fields assigned by events on this map field
	owner, field, _ := mapOwner(mapv)
	if owner == nil {
		for _, ev := range vc.events {
			if ev.Kind == kind+"_local" && ev.Target == mapv.Type().String() || ev.Kind == kind+"_unowned" {
				for _, gs := range ev.Stmts {
					if id, ok := gs.Target.(*EIdent); ok {
						arrays["GG_"+id.Name] = true
					}
				}
			}
		}
		return
	}
	for _, ev := range vc.events {
		if ev.Kind != kind {
			continue
		}
		if !vc.eventMatchesField(ev, owner, field) {
			continue
		}
		for _, gs := range ev.Stmts {
			if sel, ok := gs.Target.(*ESel); ok {
				for k, g := range vc.gfields {
					if g.Field == sel.F {
						arrays["G_"+strings.TrimSuffix(k, "."+g.Field)+"__"+g.Field] = true
					}
				}
			}
			if id, ok := gs.Target.(*EIdent); ok {
				arrays["GG_"+id.Name] = true
			}
		}
	}
}

func (vc *VC) callWrites(st *State, fr *Frame, call *ssa.CallCommon, arrays map[string]bool, allocs *bool, depth int, visiting map[*ssa.Function]bool) {
	if call.IsInvoke() {
		key := ifaceKey(call)
		if c, ok := vc.ifaceCon[key]; ok {
			vc.modArrays(c, nil, arrays, allocs)
		}
		vc.callEventWrites(key, arrays)
		return
	}
	switch callee := call.Value.(type) {
	case *ssa.Builtin:
		switch callee.Name() {
		case "append":
			*allocs = true
			el := call.Args[0].Type().Underlying().(*types.Slice).Elem()
			for _, l := range vc.leaves(el) {
				n, _ := vc.elemArr(typeKey(el), l.Path, l)
				arrays[n] = true
			}
		case "delete":
			m := call.Args[0].Type().Underlying().(*types.Map)
			n, _ := vc.mapDomArr(m)
			arrays[n] = true
			vc.eventWrites(call.Args[0], "delete", arrays)
		case "copy":
			el := call.Args[0].Type().Underlying().(*types.Slice).Elem()
			for _, l := range vc.leaves(el) {
				n, _ := vc.elemArr(typeKey(el), l.Path, l)
				arrays[n] = true
			}
		}
	case *ssa.Function:
		vc.callEventWrites(callee.String(), arrays)
		vc.funcWrites(st, fr, callee, arrays, allocs, depth, visiting)
		// closures passed as arguments (errgroup.Go(func)) are executed synchronously
		for _, a := range call.Args {
			if mc, ok := a.(*ssa.MakeClosure); ok {
				vc.funcWrites(st, fr, mc.Fn.(*ssa.Function), arrays, allocs, depth, visiting)
			}
		}
	case *ssa.MakeClosure:
		vc.funcWrites(st, fr, callee.Fn.(*ssa.Function), arrays, allocs, depth, visiting)
	default:
		// call through a func-typed value: field contract if the value was loaded from a field
		if key := fieldFuncKey(call.Value); key != "" {
			vc.callEventWrites(key, arrays)
			if c, ok := vc.fieldCon[key]; ok {
				vc.modArrays(c, nil, arrays, allocs)
			}
		}
	}
}

func (vc *VC) callEventWrites(target string, arrays map[string]bool) {
	for _, ev := range vc.events {
		if ev.Kind != "call" {
			continue
		}
		match := false
		if full, err := vc.qualify(ev.Target, vc.pkgOf(ev.Pkg), 2); err == nil && full == target {
			match = true
		} else if fn, err := vc.resolveFunc(ev.Target, vc.pkgOf(ev.Pkg)); err == nil && fn.String() == target {
			match = true
		}
		if match {
			for _, gs := range ev.Stmts {
				if id, ok := gs.Target.(*EIdent); ok {
					arrays["GG_"+id.Name] = true
				}
				if sel, ok := gs.Target.(*ESel); ok {
					for k, g := range vc.gfields {
						if g.Field == sel.F {
							arrays["G_"+strings.TrimSuffix(k, "."+g.Field)+"__"+g.Field] = true
						}
					}
				}
			}
		}
	}
}

func (vc *VC) pkgOf(path string) *packages.Package {
	for _, p := range vc.pkgs {
		if p.PkgPath == path {
			return p
		}
	}
	var found *packages.Package
	packages.Visit(vc.pkgs, func(p *packages.Package) bool {
		if p.PkgPath == path {
			found = p
		}
		return found == nil
	}, nil)
	return found
}

func (vc *VC) funcWrites(st *State, fr *Frame, callee *ssa.Function, arrays map[string]bool, allocs *bool, depth int, visiting map[*ssa.Function]bool) {
	if c, ok := vc.contracts[callee]; ok {
		vc.modArrays(c, callee, arrays, allocs)
		return
	}
	if vc.isEffectFree(callee) {
		return
	}
	if callee.Blocks == nil || visiting[callee] || depth > 6 {
		return
	}
	if !strings.HasPrefix(callee.String(), "tkestack.io/kvass") && !strings.Contains(callee.String(), "tkestack.io/kvass") && callee.Parent() == nil {
		if !vc.specialInline(callee) {
			return // abstracted external: assumed effect free on modelled state (listed)
		}
	}
	visiting[callee] = true
	for _, b := range callee.Blocks {
		for _, in := range b.Instrs {
			vc.writesOf(st, fr, in, arrays, allocs, depth+1, visiting)
		}
	}
	delete(visiting, callee)
}

func (vc *VC) specialInline(fn *ssa.Function) bool {
	switch fn.String() {
	case "(*golang.org/x/sync/errgroup.Group).Go":
		return false
	}
	return false
}

// modArrays adds the arrays a contract's modifies clause covers.
func (vc *VC) modArrays(c *Contract, fn *ssa.Function, arrays map[string]bool, allocs *bool) {
	*allocs = true
	for _, mi := range c.Modifies {
		for _, a := range vc.modItemArrays(c, mi) {
			arrays[a] = true
		}
	}
}

func (vc *VC) modItemArrays(c *Contract, mi *ModItem) []string {
	pkg := vc.pkgOf(c.Pkg)
	if mi.Kind == "elemsof" || mi.Kind == "pointee" {
		return nil // resolved per call site (applyContract) or per function (paramModArrays)
	}
	if mi.Kind == "gglobal" {
		g, ok := vc.gglobals[mi.Path]
		if !ok {
			panic(specErr{fmt.Sprintf("%s:%d: modifies: unknown ghost global %s", c.File, mi.Line, mi.Path)})
		}
		vc.arrSorts["GG_"+g.Name] = ghostSort(g.GoTyp)
		return []string{"GG_" + g.Name}
	}
	nt, err := vc.resolveNamed(mi.Type, pkg)
	if err != nil {
		panic(specErr{fmt.Sprintf("%s:%d: modifies: %v", c.File, mi.Line, err)})
	}
	var out []string
	if g, ok := vc.gfields[typeKey(nt)+"."+mi.Path]; ok {
		name := "G_" + typeKey(nt) + "__" + g.Field
		vc.arrSorts[name] = arrSort(SInt, ghostSort(g.GoTyp))
		return []string{name}
	}
	stt, ok := nt.Underlying().(*types.Struct)
	if !ok {
		panic(specErr{fmt.Sprintf("%s:%d: modifies: %s is not a struct", c.File, mi.Line, mi.Type)})
	}
	if mi.Path == "*" && mi.Kind == "field" {
		for _, l := range vc.leaves(nt) {
			n, _ := vc.fieldArr(ownerKey(nt), l.Path, l)
			out = append(out, n)
		}
		// ghost fields of the type as well
		prefix := typeKey(nt) + "."
		var gk []string
		for k := range vc.gfields {
			if strings.HasPrefix(k, prefix) {
				gk = append(gk, k)
			}
		}
		sort.Strings(gk)
		for _, k := range gk {
			g := vc.gfields[k]
			name := "G_" + typeKey(nt) + "__" + g.Field
			vc.arrSorts[name] = arrSort(SInt, ghostSort(g.GoTyp))
			out = append(out, name)
		}
		return out
	}
	var ft types.Type
	segs := strings.Split(mi.Path, ".")
	cur := stt
	for si, seg := range segs {
		ft = nil
		for i := 0; i < cur.NumFields(); i++ {
			if cur.Field(i).Name() == seg {
				ft = cur.Field(i).Type()
			}
		}
		if ft == nil {
			break
		}
		if si < len(segs)-1 {
			next, ok := ft.Underlying().(*types.Struct)
			if !ok {
				ft = nil
				break
			}
			cur = next
		}
	}
	if ft == nil {
		panic(specErr{fmt.Sprintf("%s:%d: modifies: no field %s in %s", c.File, mi.Line, mi.Path, mi.Type)})
	}
	switch mi.Kind {
	case "field":
		for _, l := range vc.leaves(ft) {
			n, _ := vc.fieldArr(ownerKey(nt), joinPath(mi.Path, l.Path), l)
			out = append(out, n)
		}
	case "map":
		m, ok := ft.Underlying().(*types.Map)
		if !ok {
			panic(specErr{fmt.Sprintf("%s:%d: mapof: field is not a map", c.File, mi.Line)})
		}
		n, _ := vc.mapDomArr(m)
		out = append(out, n)
		for _, l := range vc.leaves(m.Elem()) {
			n, _ := vc.mapValArr(m, l)
			out = append(out, n)
		}
	case "elems":
		s, ok := ft.Underlying().(*types.Slice)
		if !ok {
			// a map whose values are slices: the elements of those slices
			if m, isMap := ft.Underlying().(*types.Map); isMap {
				s, ok = m.Elem().Underlying().(*types.Slice)
			}
		}
		if !ok {
			panic(specErr{fmt.Sprintf("%s:%d: elems: field is not a slice", c.File, mi.Line)})
		}
		for _, l := range vc.leaves(s.Elem()) {
			n, _ := vc.elemArr(typeKey(s.Elem()), l.Path, l)
			out = append(out, n)
		}
	}
	return out
}

func (vc *VC) isEffectFree(fn *ssa.Function) bool {
	s := fn.String()
	if vc.effectFree[s] {
		return true
	}
	if fn.Pkg != nil && vc.effectFree[fn.Pkg.Pkg.Path()] {
		return true
	}
	if c, ok := vc.contracts[fn]; ok && c.EffectFree {
		return true
	}
	return false
}

func ifaceKey(call *ssa.CallCommon) string {
	t := call.Value.Type()
	if n, ok := types.Unalias(t).(*types.Named); ok && n.Obj().Pkg() != nil {
		return n.Obj().Pkg().Path() + "." + n.Obj().Name() + "." + call.Method.Name()
	}
	// method declared in an embedded interface: use the method's package
	return "?." + call.Method.Name()
}

// fieldFuncKey: if v is a load from a FieldAddr, return "pkgpath.Type.field".
func fieldFuncKey(v ssa.Value) string {
	un, ok := v.(*ssa.UnOp)
	if !ok || un.Op != token.MUL {
		return ""
	}
	fa, ok := un.X.(*ssa.FieldAddr)
	if !ok {
		// an element of a slice of functions held in a struct field (a callback list: `for _, f := range c.callbacks { f(..) }`)
		// carries the field's key as well: `contract field T.callbacks(args)` then describes every element of the list
		if ia, ok2 := un.X.(*ssa.IndexAddr); ok2 {
			if _, isSlice := ia.X.Type().Underlying().(*types.Slice); isSlice {
				return fieldFuncKey(ia.X)
			}
		}
		return ""
	}
	pt, ok := fa.X.Type().Underlying().(*types.Pointer)
	if !ok {
		return ""
	}
	n, ok := types.Unalias(pt.Elem()).(*types.Named)
	if !ok || n.Obj().Pkg() == nil {
		return ""
	}
	stt := n.Underlying().(*types.Struct)
	return n.Obj().Pkg().Path() + "." + n.Obj().Name() + "." + stt.Field(fa.Field).Name()
}

// mapOwner: if the map value was loaded from obj.field, return (obj value, "pkgpath.Type.field", fieldname)
func mapOwner(v ssa.Value) (ssa.Value, string, string) {
	un, ok := v.(*ssa.UnOp)
	if !ok || un.Op != token.MUL {
		return nil, "", ""
	}
	fa, ok := un.X.(*ssa.FieldAddr)
	if !ok {
		return nil, "", ""
	}
	pt, ok := fa.X.Type().Underlying().(*types.Pointer)
	if !ok {
		return nil, "", ""
	}
	n, ok := types.Unalias(pt.Elem()).(*types.Named)
	if !ok || n.Obj().Pkg() == nil {
		return nil, "", ""
	}
	stt := n.Underlying().(*types.Struct)
	return fa.X, n.Obj().Pkg().Path() + "." + n.Obj().Name() + "." + stt.Field(fa.Field).Name(), stt.Field(fa.Field).Name()
}

func (vc *VC) eventMatchesField(ev *Event, owner ssa.Value, field string) bool {
	full, err := vc.qualify(ev.Target, vc.pkgOf(ev.Pkg), 2)
	if err != nil {
		return false
	}
	return full == field
}

// ---------- values ----------

func (vc *VC) value(st *State, fr *Frame, v ssa.Value) Val {
	switch x := v.(type) {
	case *ssa.Const:
		return vc.constant(st, x)
	case *ssa.Function:
		return FuncV{Fn: x}
	case *ssa.Global:
		// address of a package-level variable: a fixed cell object per global
		el := x.Type().Underlying().(*types.Pointer).Elem()
		id := vc.strLit("global:" + x.String())
		// globals live at negative addresses to stay disjoint from allocations
		return LocV{Obj: "(- " + id + ")", Owner: "global_" + ownerKey(el), Typ: el}
	case *ssa.Builtin:
		return FuncV{Fn: x}
	}
	if val, ok := fr.env[v]; ok {
		return val
	}
	panic(engineFail{fmt.Sprintf("value %s (%T) not in environment of %s", v.Name(), v, fr.fn)})
}

func (vc *VC) constant(st *State, c *ssa.Const) Val {
	t := c.Type()
	if c.Value == nil {
		return st.zeroVal(t)
	}
	switch c.Value.Kind() {
	case constant.Bool:
		if constant.BoolVal(c.Value) {
			return boolv("true")
		}
		return boolv("false")
	case constant.String:
		return intv(vc.strLit(constant.StringVal(c.Value)))
	case constant.Int:
		if b, ok := t.Underlying().(*types.Basic); ok && b.Info()&types.IsFloat != 0 {
			f, _ := constant.Float64Val(c.Value)
			return Sc{smtReal(f), SReal}
		}
		return intv(smtInt(c.Value.ExactString()))
	case constant.Float:
		f, _ := constant.Float64Val(c.Value)
		return Sc{smtReal(f), SReal}
	}
	panic(unsupported("constant " + c.String()))
}

func (vc *VC) scalar(st *State, fr *Frame, v ssa.Value) Sc {
	val := vc.value(st, fr, v)
	switch x := val.(type) {
	case Sc:
		return x
	case LocV:
		if x.Prefix == "" && !x.Elem {
			return intv(x.Obj)
		}
	case FuncV:
		if x.Term != "" {
			return intv(x.Term)
		}
		return intv(vc.funcID(x))
	}
	panic(unsupported(fmt.Sprintf("scalar expected for %s, got %T", v.Name(), val)))
}

// ---------- instructions ----------

func (vc *VC) runInstrs(st *State, fr *Frame, b *ssa.BasicBlock, start int) {
	for i := start; i < len(b.Instrs); i++ {
		in := b.Instrs[i]
		switch x := in.(type) {
		case *ssa.Phi:
			continue
		case *ssa.DebugRef:
			if id, ok := x.Expr.(*ast.Ident); ok {
				if tv, isVar := x.Object().(*types.Var); !isVar || tv.IsField() {
					continue
				}
				if os.Getenv("GOVC_DEBUG_NAMES") != "" {
					fmt.Fprintf(os.Stderr, "debugref %s = %s (%T) in %s at %s\n", id.Name, x.X.Name(), x.X, fr.fn.Name(), vc.pos(id.Pos()))
				}
				if val, ok2 := fr.env[x.X]; ok2 {
					fr.names[id.Name] = nameEntry{V: val, T: x.X.Type(), IsAddr: x.IsAddr}
				} else if c, ok3 := x.X.(*ssa.Const); ok3 {
					fr.names[id.Name] = nameEntry{V: vc.constant(st, c), T: c.Type()}
				}
			}
			continue
		case *ssa.If:
			c := vc.scalar(st, fr, x.Cond).T
			tb, fb := b.Succs[0], b.Succs[1]
			if c == "true" {
				vc.runBlock(st, fr, tb, b)
				return
			}
			if c == "false" {
				vc.runBlock(st, fr, fb, b)
				return
			}
			st2, fr2 := st.fork(), fr.clone()
			st.assume(c)
			st.trail = append(st.trail, fmt.Sprintf("%s: true", vc.pos(x.Cond.Pos())))
			vc.runBlock(st, fr, tb, b)
			st2.assume(sNot(c))
			st2.trail = append(st2.trail, fmt.Sprintf("%s: false", vc.pos(x.Cond.Pos())))
			vc.runBlock(st2, fr2, fb, b)
			return
		case *ssa.Jump:
			vc.runBlock(st, fr, b.Succs[0], b)
			return
		case *ssa.Return:
			vc.doReturn(st, fr, x)
			return
		case *ssa.Panic:
			if vc.abortEvent(st, fr, x) {
				return
			}
			vc.check(st, fr, "safety", "no-explicit-panic", vc.safetyTags(fr), "false", x.Pos())
			return
		case *ssa.RunDefers:
			if len(fr.defers) > 0 {
				d := fr.defers[len(fr.defers)-1]
				fr.defers = fr.defers[:len(fr.defers)-1]
				// execute the deferred call, then re-execute this RunDefers
				if vc.doCall(st, fr, d.call, nil, d.fn, d.args, b, i, true, d.instr.Pos()) {
					return // continuation took over
				}
				i-- // re-run
			}
			continue
		case *ssa.Call:
			fnv, args := vc.evalCallOperands(st, fr, &x.Call)
			if vc.doCall(st, fr, &x.Call, x, fnv, args, b, i, false, x.Pos()) {
				return
			}
			continue
		case *ssa.Defer:
			fnv, args := vc.evalCallOperands(st, fr, &x.Call)
			fr.defers = append(fr.defers, deferred{call: &x.Call, fn: fnv, args: args, instr: x})
			continue
		case *ssa.Go:
			panic(unsupported("go statement"))
		case *ssa.Select:
			panic(unsupported("select statement"))
		case *ssa.Send:
			// a channel send is modelled as a ghost event only (blocking and the receiver are not modelled)
			vc.sendEvent(st, fr, x)
			continue
		}
		if vc.step(st, fr, in) {
			return // path ended (infeasible or forked inside)
		}
	}
}

func (vc *VC) safetyTags(fr *Frame) []string {
	top := fr
	for top.parent != nil {
		top = top.parent
	}
	return append([]string{"safety"}, contractTags(top.contract)...)
}

func (vc *VC) nonNil(st *State, fr *Frame, p string, what string, pos token.Pos) {
	if strings.HasPrefix(p, "(+ alloc") || strings.HasPrefix(p, "alloc!") || strings.HasPrefix(p, "(- ") {
		return
	}
	vc.check(st, fr, "safety", "nil-deref", vc.safetyTags(fr), sNot(sEq(p, "0")), pos)
}

// step executes a non-control instruction; returns true if the path ended.
func (vc *VC) step(st *State, fr *Frame, in ssa.Instruction) bool {
	switch x := in.(type) {
	case *ssa.Alloc:
		el := x.Type().Underlying().(*types.Pointer).Elem()
		ref := st.newRef()
		if arr, ok := el.Underlying().(*types.Array); ok {
			// backing array: zero all elements
			for _, l := range vc.leaves(arr.Elem()) {
				n, s := vc.elemArr(typeKey(arr.Elem()), l.Path, l)
				a := st.array(n, s)
				st.setArray(n, s, sStore(a, ref, fmt.Sprintf("((as const (Array Int %s)) %s)", l.Sort, zeroOf(l.Sort))))
			}
			fr.env[x] = intv(ref)
			return false
		}
		loc := LocV{Obj: ref, Owner: ownerKey(el), Typ: el}
		st.storeLoc(loc, st.zeroVal(el))
		vc.initGhost(st, el, ref)
		fr.env[x] = intv(ref)
		if x.Comment != "" && x.Comment != "varargs" && x.Comment != "complit" && x.Comment != "makeslice" && x.Comment != "slicelit" {
			if _, exists := fr.names[x.Comment]; !exists {
				// an address-taken local: its name denotes the variable, addr(name) its address
				fr.names[x.Comment] = nameEntry{V: intv(ref), T: x.Type(), IsAddr: true}
			}
		}
	case *ssa.FieldAddr:
		base := vc.value(st, fr, x.X)
		pt := x.X.Type().Underlying().(*types.Pointer).Elem()
		stt := pt.Underlying().(*types.Struct)
		f := stt.Field(x.Field)
		loc := st.ptrToLoc(base, pt)
		if sc, ok := base.(Sc); ok {
			vc.nonNil(st, fr, sc.T, "field "+f.Name(), x.Pos())
		}
		loc.Prefix = joinPath(loc.Prefix, f.Name())
		loc.Typ = f.Type()
		fr.env[x] = loc
	case *ssa.Field:
		sv := vc.value(st, fr, x.X).(*StructV)
		fr.env[x] = sv.F[x.Field]
	case *ssa.IndexAddr:
		idx := vc.scalar(st, fr, x.Index).T
		switch xt := x.X.Type().Underlying().(type) {
		case *types.Slice:
			sl := vc.value(st, fr, x.X).(SliceV)
			vc.check(st, fr, "safety", "index-in-range", vc.safetyTags(fr), fmt.Sprintf("(and (<= 0 %s) (< %s %s))", idx, idx, sl.Len), x.Pos())
			fr.env[x] = st.sliceElemLoc(sl, idx, xt.Elem())
		case *types.Pointer:
			arr := xt.Elem().Underlying().(*types.Array)
			base := vc.scalar(st, fr, x.X).T
			vc.check(st, fr, "safety", "index-in-range", vc.safetyTags(fr), fmt.Sprintf("(and (<= 0 %s) (< %s %d))", idx, idx, arr.Len()), x.Pos())
			fr.env[x] = LocV{Elem: true, Obj: base, Idx: idx, Owner: typeKey(arr.Elem()), Typ: arr.Elem()}
		default:
			panic(unsupported("IndexAddr on " + x.X.Type().String()))
		}
	case *ssa.Index:
		panic(unsupported("Index on array/string value"))
	case *ssa.UnOp:
		return vc.unop(st, fr, x)
	case *ssa.BinOp:
		fr.env[x] = vc.binop(st, fr, x)
	case *ssa.Store:
		addr := vc.value(st, fr, x.Addr)
		el := x.Addr.Type().Underlying().(*types.Pointer).Elem()
		loc := st.ptrToLoc(addr, el)
		if sc, ok := addr.(Sc); ok {
			vc.nonNil(st, fr, sc.T, "store", x.Pos())
		}
		vc.fieldStoreEvent(st, fr, x) // events see the state before the store
		st.storeLoc(loc, vc.value(st, fr, x.Val))
	case *ssa.MakeMap:
		m := x.Type().Underlying().(*types.Map)
		ref := st.newRef()
		n, s := vc.mapDomArr(m)
		a := st.array(n, s)
		ks := vc.leaves(m.Key())[0].Sort
		st.setArray(n, s, sStore(a, ref, fmt.Sprintf("((as const (Array %s Bool)) false)", ks)))
		fr.env[x] = intv(ref)
	case *ssa.MakeSlice:
		el := x.Type().Underlying().(*types.Slice).Elem()
		ref := st.newRef()
		ln := vc.scalar(st, fr, x.Len).T
		for _, l := range vc.leaves(el) {
			n, s := vc.elemArr(typeKey(el), l.Path, l)
			a := st.array(n, s)
			st.setArray(n, s, sStore(a, ref, fmt.Sprintf("((as const (Array Int %s)) %s)", l.Sort, zeroOf(l.Sort))))
		}
		fr.env[x] = SliceV{Base: ref, Off: "0", Len: ln}
	case *ssa.MakeInterface:
		v := vc.value(st, fr, x.X)
		tag := vc.typeID(x.X.Type())
		switch p := v.(type) {
		case Sc:
			if p.S != SInt {
				// booleans / floats are boxed: opaque payload
				fr.env[x] = IfaceV{Tag: tag, Pay: st.fresh("box", SInt), Dyn: x.X.Type()}
				break
			}
			fr.env[x] = IfaceV{Tag: tag, Pay: p.T, Dyn: x.X.Type()}
		case LocV:
			if p.Prefix == "" && !p.Elem {
				fr.env[x] = IfaceV{Tag: tag, Pay: p.Obj, Dyn: x.X.Type()}
			} else {
				fr.env[x] = IfaceV{Tag: tag, Pay: st.fresh("box", SInt), Dyn: x.X.Type()}
			}
		default:
			// boxed non-scalar: opaque payload
			fr.env[x] = IfaceV{Tag: tag, Pay: st.fresh("box", SInt), Dyn: x.X.Type()}
		}
	case *ssa.MakeClosure:
		var free []Val
		for _, b := range x.Bindings {
			free = append(free, vc.value(st, fr, b))
		}
		fr.env[x] = FuncV{Fn: x.Fn.(*ssa.Function), Free: free}
	case *ssa.ChangeType:
		fr.env[x] = vc.value(st, fr, x.X)
	case *ssa.ChangeInterface:
		fr.env[x] = vc.value(st, fr, x.X)
	case *ssa.Convert:
		fr.env[x] = vc.convert(st, fr, x)
	case *ssa.Slice:
		fr.env[x] = vc.sliceOp(st, fr, x)
	case *ssa.Lookup:
		fr.env[x] = vc.lookup(st, fr, x)
	case *ssa.MapUpdate:
		m := x.Map.Type().Underlying().(*types.Map)
		ref := vc.scalar(st, fr, x.Map).T
		vc.check(st, fr, "safety", "nil-map-write", vc.safetyTags(fr), sNot(sEq(ref, "0")), x.Pos())
		key := vc.scalar(st, fr, x.Key).T
		val := vc.value(st, fr, x.Value)
		vc.mapEvent(st, fr, "insert", x.Map, ref, key, val, m, x.Pos())
		st.mapPut(m, ref, key, val)
	case *ssa.Extract:
		tv := vc.value(st, fr, x.Tuple).(TupleV)
		fr.env[x] = tv.V[x.Index]
	case *ssa.TypeAssert:
		iv, ok := vc.value(st, fr, x.X).(IfaceV)
		if !ok {
			panic(unsupported("type assertion on non-interface value"))
		}
		if _, isIface := x.AssertedType.Underlying().(*types.Interface); isIface {
			if x.CommaOk {
				okv := st.fresh("taok", SBool)
				fr.env[x] = TupleV{[]Val{iv, boolv(okv)}}
			} else {
				fr.env[x] = iv
			}
			break
		}
		tag := vc.typeID(x.AssertedType)
		cond := sEq(iv.Tag, tag)
		var res Val
		ls := vc.leaves(x.AssertedType)
		if len(ls) == 1 && ls[0].Sort == SInt {
			res = intv(iv.Pay)
		} else {
			res = st.freshVal("unbox", x.AssertedType)
		}
		if x.CommaOk {
			fr.env[x] = TupleV{[]Val{res, boolv(cond)}}
		} else {
			vc.check(st, fr, "safety", "type-assertion", vc.safetyTags(fr), cond, x.Pos())
			fr.env[x] = res
		}
	case *ssa.Range:
		switch t := x.X.Type().Underlying().(type) {
		case *types.Map:
			ref := vc.scalar(st, fr, x.X).T
			fr.env[x] = MapIterV{Map: ref, KT: t.Key(), VT: t.Elem(), D0: st.mapDom(t, ref, nil)}
		default:
			panic(unsupported("range over " + x.X.Type().String()))
		}
	case *ssa.Next:
		return vc.next(st, fr, x)
	default:
		panic(unsupported(fmt.Sprintf("instruction %T: %s", in, in)))
	}
	return false
}

func (vc *VC) unop(st *State, fr *Frame, x *ssa.UnOp) bool {
	switch x.Op {
	case token.MUL:
		addr := vc.value(st, fr, x.X)
		el := x.X.Type().Underlying().(*types.Pointer).Elem()
		loc := st.ptrToLoc(addr, el)
		if sc, ok := addr.(Sc); ok {
			vc.nonNil(st, fr, sc.T, "load", x.Pos())
		}
		v := st.loadLoc(loc, nil)
		if fv, ok := v.(FuncV); ok {
			fv.From = fieldFuncKey(x)
			if fa, ok := x.X.(*ssa.FieldAddr); ok && !loc.Elem {
				fv.Owner = loc.Obj
				fv.OwnerT = fa.X.Type()
			}
			v = fv
		}
		fr.env[x] = v
	case token.NOT:
		fr.env[x] = boolv(sNot(vc.scalar(st, fr, x.X).T))
	case token.SUB:
		s := vc.scalar(st, fr, x.X)
		fr.env[x] = Sc{"(- " + s.T + ")", s.S}
	case token.ARROW:
		panic(unsupported("channel receive"))
	default:
		panic(unsupported("unary " + x.Op.String()))
	}
	return false
}

func (vc *VC) binop(st *State, fr *Frame, x *ssa.BinOp) Val {
	a := vc.value(st, fr, x.X)
	b := vc.value(st, fr, x.Y)
	switch x.Op {
	case token.EQL, token.NEQ:
		eq, ok := scalarEq(a, b)
		if !ok {
			// string/struct comparisons of unsupported shapes: unknown boolean
			eq = st.fresh("cmp", SBool)
		}
		if x.Op == token.NEQ {
			return boolv(sNot(eq))
		}
		return boolv(eq)
	}
	as, ok1 := a.(Sc)
	bs, ok2 := b.(Sc)
	if !ok1 || !ok2 {
		panic(unsupported(fmt.Sprintf("binop %s on %T,%T", x.Op, a, b)))
	}
	isStr := false
	if bt, ok := x.X.Type().Underlying().(*types.Basic); ok && bt.Info()&types.IsString != 0 {
		isStr = true
	}
	switch x.Op {
	case token.ADD:
		if isStr {
			vc.ufs["strconcat"] = &UFDecl{Name: "strconcat", Params: []string{"int", "int"}, Result: "int"}
			return intv("(uf_strconcat " + as.T + " " + bs.T + ")")
		}
		return Sc{"(+ " + as.T + " " + bs.T + ")", as.S}
	case token.SUB:
		return Sc{"(- " + as.T + " " + bs.T + ")", as.S}
	case token.MUL:
		return Sc{"(* " + as.T + " " + bs.T + ")", as.S}
	case token.QUO:
		if as.S == SReal {
			return Sc{"(/ " + as.T + " " + bs.T + ")", SReal}
		}
		vc.check(st, fr, "safety", "div-by-zero", vc.safetyTags(fr), sNot(sEq(bs.T, "0")), x.Pos())
		return intv(goDiv2(as.T, bs.T))
	case token.REM:
		vc.check(st, fr, "safety", "div-by-zero", vc.safetyTags(fr), sNot(sEq(bs.T, "0")), x.Pos())
		return intv(fmt.Sprintf("(- %s (* %s %s))", as.T, bs.T, goDiv2(as.T, bs.T)))
	case token.LSS:
		if isStr {
			return boolv(st.fresh("strlt", SBool))
		}
		return boolv("(< " + as.T + " " + bs.T + ")")
	case token.LEQ:
		return boolv("(<= " + as.T + " " + bs.T + ")")
	case token.GTR:
		return boolv("(> " + as.T + " " + bs.T + ")")
	case token.GEQ:
		return boolv("(>= " + as.T + " " + bs.T + ")")
	case token.AND, token.OR, token.XOR, token.SHL, token.SHR, token.AND_NOT:
		if as.S == SBool {
			switch x.Op {
			case token.AND:
				return boolv(sAnd(as.T, bs.T))
			case token.OR:
				return boolv(sOr(as.T, bs.T))
			}
		}
		// bit operations are not modelled
		v := st.freshVal("bitop", x.Type())
		return v
	}
	panic(unsupported("binop " + x.Op.String()))
}

// goDiv2: Go truncated division for arbitrary signs.
func goDiv2(a, b string) string {
	// trunc(a/b) = sign * (|a| div |b|)
	return fmt.Sprintf("(ite (>= %s 0) (ite (> %s 0) (div %s %s) (- (div %s (- %s)))) (ite (> %s 0) (- (div (- %s) %s)) (div (- %s) (- %s))))", a, b, a, b, a, b, b, a, b, a, b)
}

func (vc *VC) convert(st *State, fr *Frame, x *ssa.Convert) Val {
	from := x.X.Type().Underlying()
	to := x.Type().Underlying()
	v := vc.value(st, fr, x.X)
	fb, ok1 := from.(*types.Basic)
	tb, ok2 := to.(*types.Basic)
	if ok1 && ok2 {
		sc := v.(Sc)
		fInt := fb.Info()&types.IsInteger != 0
		tInt_ := tb.Info()&types.IsInteger != 0
		fFlt := fb.Info()&types.IsFloat != 0
		tFlt := tb.Info()&types.IsFloat != 0
		switch {
		case fInt && tInt_:
			return sc // machine integers treated as mathematical (stated assumption)
		case fInt && tFlt:
			return Sc{"(to_real " + sc.T + ")", SReal}
		case fFlt && tInt_:
			// truncation toward zero
			return intv(fmt.Sprintf("(ite (>= %s 0.0) (to_int %s) (- (to_int (- %s))))", sc.T, sc.T, sc.T))
		case fFlt && tFlt:
			return sc
		case fb.Info()&types.IsString != 0 && tb.Info()&types.IsString != 0:
			return sc
		}
	}
	// other conversions ([]byte <-> string, ...) are abstracted to fresh values
	return st.freshVal("conv", x.Type())
}

func (vc *VC) sliceOp(st *State, fr *Frame, x *ssa.Slice) Val {
	var lo, hi string
	if x.Low != nil {
		lo = vc.scalar(st, fr, x.Low).T
	} else {
		lo = "0"
	}
	switch xt := x.X.Type().Underlying().(type) {
	case *types.Slice:
		sl := vc.value(st, fr, x.X).(SliceV)
		if x.High != nil {
			hi = vc.scalar(st, fr, x.High).T
		} else {
			hi = sl.Len
		}
		// bounds: 0 <= lo <= hi <= len (cap is not modelled; hi <= len is the stricter, safe check)
		vc.check(st, fr, "safety", "slice-bounds", vc.safetyTags(fr), fmt.Sprintf("(and (<= 0 %s) (<= %s %s) (<= %s %s))", lo, lo, hi, hi, sl.Len), x.Pos())
		if lo == "0" {
			return SliceV{Base: sl.Base, Off: "0", Len: hi}
		}
		return vc.viewCopy(st, sl, lo, "(- "+hi+" "+lo+")", xt.Elem())
	case *types.Pointer:
		arr := xt.Elem().Underlying().(*types.Array)
		base := vc.scalar(st, fr, x.X).T
		if x.High != nil {
			hi = vc.scalar(st, fr, x.High).T
		} else {
			hi = fmt.Sprint(arr.Len())
		}
		if lo == "0" {
			return SliceV{Base: base, Off: "0", Len: hi}
		}
		return vc.viewCopy(st, SliceV{Base: base, Off: "0", Len: fmt.Sprint(arr.Len())}, lo, "(- "+hi+" "+lo+")", arr.Elem())
	case *types.Basic:
		// substring: abstracted
		return st.freshVal("substr", x.Type())
	}
	panic(unsupported("slice of " + x.X.Type().String()))
}

func (vc *VC) lookup(st *State, fr *Frame, x *ssa.Lookup) Val {
	m, ok := x.X.Type().Underlying().(*types.Map)
	if !ok {
		// string indexing
		return st.freshVal("stridx", x.Type())
	}
	ref := vc.scalar(st, fr, x.X).T
	key := vc.scalar(st, fr, x.Index).T
	v := st.mapGet(m, ref, key, nil)
	if x.CommaOk {
		return TupleV{[]Val{v, boolv(st.mapHas(m, ref, key, nil))}}
	}
	return v
}

func (vc *VC) next(st *State, fr *Frame, x *ssa.Next) bool {
	it := vc.value(st, fr, x.Iter).(MapIterV)
	if x.IsString {
		panic(unsupported("range over string"))
	}
	m := types.NewMap(it.KT, it.VT)
	visName := fr.visited[x.Block()]
	if visName == "" {
		panic(engineFail{"map iterator outside a recognised loop head"})
	}
	visSort := vc.arrSorts[visName]
	vis := st.array(visName, visSort)
	ks := vc.leaves(it.KT)[0].Sort
	// outcome 1: produce a key
	k := st.fresh("k", ks)
	if isUnsigned(it.KT) {
		st.assume("(<= 0 " + k + ")")
	}
	domNow := st.mapDom(m, it.Map, nil)
	st2, fr2 := st.fork(), fr.clone()
	st.assume(sSel(domNow, k))
	st.assume(sNot(sSel(vis, k)))
	st.arr[visName] = st.fresh(visName, visSort)
	st.assume(sEq(st.arr[visName], sStore(vis, k, "true")))
	val := st.mapGetRaw(m, it.Map, k, nil)
	fr.env[x] = TupleV{[]Val{boolv("true"), Sc{k, ks}, val}}
	// refresh visited name binding
	for _, li := range vc.loopsOf(fr.fn) {
		if li.head == x.Block() {
			fr.names[fmt.Sprintf("visited%d", li.ordinal)] = nameEntry{V: SetV{T: st.arr[visName], K: SInt}, T: &setType{K: tInt}}
			// key<k> / val<k>: the entry produced by this iteration (also when the source discards it with _)
			fr.names[fmt.Sprintf("key%d", li.ordinal)] = nameEntry{V: Sc{k, ks}, T: it.KT}
			fr.names[fmt.Sprintf("val%d", li.ordinal)] = nameEntry{V: val, T: it.VT}
		}
	}
	st.trail = append(st.trail, "range: next key")
	vc.continueAfter(st, fr, x)
	// outcome 2: exhausted — every key that was there at the start and is still there has been visited
	vc.counter++
	q := fmt.Sprintf("q!%d", vc.counter)
	st2.assume(fmt.Sprintf("(forall ((%s %s)) (! (=> (and (select %s %s) (select %s %s)) (select %s %s)) :pattern ((select %s %s))))", q, ks, it.D0, q, domNow, q, vis, q, domNow, q))
	fr2.env[x] = TupleV{[]Val{boolv("false"), st2.zeroVal(it.KT), st2.zeroVal(it.VT)}}
	st2.trail = append(st2.trail, "range: done")
	vc.continueAfter(st2, fr2, x)
	return true
}

// continueAfter resumes execution after instruction in (same block).
func (vc *VC) continueAfter(st *State, fr *Frame, in ssa.Instruction) {
	b := in.Block()
	for i, x := range b.Instrs {
		if x == in {
			vc.runInstrs(st, fr, b, i+1)
			return
		}
	}
	panic("continueAfter: instruction not found")
}

func (vc *VC) fieldStoreEvent(st *State, fr *Frame, x *ssa.Store) {
	// hook for "on store Type.field" events (ghost delta sums)
	fa, ok := x.Addr.(*ssa.FieldAddr)
	if !ok {
		return
	}
	pt := fa.X.Type().Underlying().(*types.Pointer).Elem()
	n, ok := types.Unalias(pt).(*types.Named)
	if !ok || n.Obj().Pkg() == nil {
		return
	}
	stt := n.Underlying().(*types.Struct)
	full := n.Obj().Pkg().Path() + "." + n.Obj().Name() + "." + stt.Field(fa.Field).Name()
	for _, ev := range vc.events {
		if ev.Kind != "store" {
			continue
		}
		q, err := vc.qualify(ev.Target, vc.pkgOf(ev.Pkg), 2)
		if err != nil || q != full {
			continue
		}
		extra := map[string]nameEntry{}
		if len(ev.Vars) > 0 {
			extra[ev.Vars[0]] = nameEntry{V: vc.value(st, fr, fa.X), T: fa.X.Type()}
		}
		if len(ev.Vars) > 1 {
			extra[ev.Vars[1]] = nameEntry{V: vc.value(st, fr, x.Val), T: x.Val.Type()}
		}
		vc.fireEvent(st, fr, ev, extra, x.Pos())
	}
}

func (vc *VC) fireEvent(st *State, fr *Frame, ev *Event, extra map[string]nameEntry, pos token.Pos) {
	vc.eventFired[ev]++
	defer func() {
		if r := recover(); r != nil {
			if se, ok := r.(specErr); ok {
				top := fr
				for top.parent != nil {
					top = top.parent
				}
				var tags []string
				for _, gs := range ev.Stmts {
					if gs.Assert != nil {
						tags = append(tags, gs.Assert.Tags...)
					}
				}
				vc.addObligation(&Obligation{Name: vc.oblName(top.fn, "event", "on "+ev.Kind+" "+ev.Target+"/unresolved"), Func: top.fn.String(), Kind: "event", Tags: tags, Failed: "event cannot be evaluated here: " + se.msg, Site: vc.pos(pos)})
				return
			}
			panic(r)
		}
	}()
	if ev.In != "" {
		fn, err := vc.resolveFunc(ev.In, vc.pkgOf(ev.Pkg))
		if err != nil {
			panic(specErr{"event 'in' function: " + err.Error()})
		}
		found := false
		for f := fr; f != nil; f = f.parent {
			if f.fn == fn {
				found = true
			}
		}
		if !found {
			vc.eventFired[ev]--
			return
		}
	}
	if ev.When != nil {
		env := vc.specEnv(st, fr, extra)
		c := env.evalBool(ev.When)
		if c == "false" {
			return
		}
		if c != "true" {
			// guarded event: run statements under the guard by forking would double paths; instead
			// guard assertions and make ghost updates conditional.
			vc.fireGuarded(st, fr, ev, extra, c, pos)
			return
		}
	}
	for _, gs := range ev.Stmts {
		vc.runGhost(st, fr, gs, extra, pos)
	}
}

func (vc *VC) fireGuarded(st *State, fr *Frame, ev *Event, extra map[string]nameEntry, guard string, pos token.Pos) {
	for _, gs := range ev.Stmts {
		if gs.Assert != nil {
			cl := *gs.Assert
			env := vc.specEnv(st, fr, extra)
			for i, p := range splitConj(cl.E) {
				goal := sImp(guard, env.evalBool(p))
				name := cl.Owner + "/" + cl.Name
				if i > 0 {
					name = fmt.Sprintf("%s#%d", name, i+1)
				}
				vc.check(st, fr, "event", name, cl.Tags, goal, pos)
			}
			continue
		}
		if gs.Assume != nil {
			env := vc.specEnv(st, fr, extra)
			st.assume(sImp(guard, env.evalBool(gs.Assume)))
			continue
		}
		// conditional ghost update: new = ite(guard, value, old)
		env := vc.specEnv(st, fr, extra)
		v, _ := env.eval(gs.Value)
		cur, _ := env.eval(gs.Target)
		var nv Expr
		_ = nv
		var term, curT string
		switch x := v.(type) {
		case Sc:
			term = x.T
		case SetV:
			term = x.T
		}
		switch x := cur.(type) {
		case Sc:
			curT = x.T
		case SetV:
			curT = x.T
		}
		merged := sIte(guard, term, curT)
		vc.assignGhostTerm(st, fr, gs.Target, merged, extra)
	}
}

func (vc *VC) assignGhostTerm(st *State, fr *Frame, target Expr, term string, extra map[string]nameEntry) {
	env := vc.specEnv(st, fr, extra)
	switch tgt := target.(type) {
	case *ESel:
		ov, ot := env.eval(tgt.X)
		el, _ := deref(ot)
		g := vc.gfields[typeKey(el)+"."+tgt.F]
		s := ghostSort(g.GoTyp)
		name := "G_" + typeKey(el) + "__" + g.Field
		a := st.array(name, arrSort(SInt, s))
		st.setArray(name, arrSort(SInt, s), sStore(a, ov.(Sc).T, term))
	case *EIdent:
		g := vc.gglobals[tgt.Name]
		s := ghostSort(g.GoTyp)
		st.array("GG_"+g.Name, s)
		st.setArray("GG_"+g.Name, s, term)
	}
}

func (vc *VC) mapEvent(st *State, fr *Frame, kind string, mapv ssa.Value, ref, key string, val Val, m *types.Map, pos token.Pos) {
	ownerV, field, _ := mapOwner(mapv)
	matched := false
	for _, ev := range vc.events {
		if ev.Kind != kind {
			continue
		}
		full, err := vc.qualify(ev.Target, vc.pkgOf(ev.Pkg), 2)
		if err != nil {
			continue
		}
		if ownerV != nil && full == field {
			matched = true
			extra := map[string]nameEntry{}
			extra[ev.Vars[0]] = nameEntry{V: vc.value(st, fr, ownerV), T: ownerV.Type()}
			if len(ev.Vars) > 1 {
				extra[ev.Vars[1]] = nameEntry{V: Sc{key, vc.leaves(m.Key())[0].Sort}, T: m.Key()}
			}
			if len(ev.Vars) > 2 && val != nil {
				extra[ev.Vars[2]] = nameEntry{V: val, T: m.Elem()}
			}
			vc.fireEvent(st, fr, ev, extra, pos)
			continue
		}
		if ownerV == nil && vc.hasUnownedEvent(kind, full) {
			continue
		}
		if ownerV == nil {
			// a map of the same type as an event field, written without a resolvable owner in the event's package
			if ft := vc.fieldType(full); ft != nil && types.Identical(ft, mapv.Type()) && fr.fn.Pkg != nil && fr.fn.Pkg.Pkg.Path() == ev.Pkg {
				top := fr
				for top.parent != nil {
					top = top.parent
				}
				var tags []string
				for _, gs := range ev.Stmts {
					if gs.Assert != nil {
						tags = append(tags, gs.Assert.Tags...)
					}
				}
				vc.addObligation(&Obligation{Name: vc.oblName(top.fn, "event", "on "+kind+" "+ev.Target+"/unowned"), Func: top.fn.String(), Kind: "event", Tags: tags, Failed: "map of the event's type written without a resolvable owner", Site: vc.pos(pos)})
			}
		}
	}
	_ = matched
	if ownerV == nil {
		// "on insert_local "<go map type>"(m, k, v)": ghost bookkeeping for a local map, matched by its type
		for _, ev := range vc.events {
			if ev.Kind != kind+"_local" || ev.Target != mapv.Type().String() {
				continue
			}
			extra := map[string]nameEntry{}
			extra[ev.Vars[0]] = nameEntry{V: intv(ref), T: mapv.Type()}
			if len(ev.Vars) > 1 {
				extra[ev.Vars[1]] = nameEntry{V: Sc{key, vc.leaves(m.Key())[0].Sort}, T: m.Key()}
			}
			if len(ev.Vars) > 2 && val != nil {
				extra[ev.Vars[2]] = nameEntry{V: val, T: m.Elem()}
			}
			vc.fireEvent(st, fr, ev, extra, pos)
		}
	}
	if ownerV == nil {
		// "on insert_unowned T.f(m, k, v)": obligations for writes to a map of that type whose owner is not syntactically known
		for _, ev := range vc.events {
			if ev.Kind != kind+"_unowned" {
				continue
			}
			full, err := vc.qualify(ev.Target, vc.pkgOf(ev.Pkg), 2)
			if err != nil {
				continue
			}
			ft := vc.fieldType(full)
			if ft == nil || !types.Identical(ft, mapv.Type()) {
				continue
			}
			extra := map[string]nameEntry{}
			extra[ev.Vars[0]] = nameEntry{V: intv(ref), T: mapv.Type()}
			if len(ev.Vars) > 1 {
				extra[ev.Vars[1]] = nameEntry{V: Sc{key, vc.leaves(m.Key())[0].Sort}, T: m.Key()}
			}
			if len(ev.Vars) > 2 && val != nil {
				extra[ev.Vars[2]] = nameEntry{V: val, T: m.Elem()}
			}
			vc.fireEvent(st, fr, ev, extra, pos)
		}
	}
}

func (vc *VC) hasUnownedEvent(kind, full string) bool {
	for _, ev := range vc.events {
		if ev.Kind == kind+"_unowned" {
			if q, err := vc.qualify(ev.Target, vc.pkgOf(ev.Pkg), 2); err == nil && q == full {
				return true
			}
		}
	}
	return false
}

func (vc *VC) fieldType(full string) types.Type {
	i := strings.LastIndex(full, ".")
	if i < 0 {
		return nil
	}
	j := strings.LastIndex(full[:i], ".")
	if j < 0 {
		return nil
	}
	sp := vc.ssaPkgs[full[:j]]
	if sp == nil {
		return nil
	}
	obj := sp.Pkg.Scope().Lookup(full[j+1 : i])
	if obj == nil {
		return nil
	}
	stt, ok := obj.Type().Underlying().(*types.Struct)
	if !ok {
		return nil
	}
	for k := 0; k < stt.NumFields(); k++ {
		if stt.Field(k).Name() == full[i+1:] {
			return stt.Field(k).Type()
		}
	}
	return nil
}

// ---------- return ----------

// panicGlobal: the package-level variable whose value is thrown by panic(x), if x is a plain load of one
func panicGlobal(v ssa.Value) *ssa.Global {
	for {
		switch x := v.(type) {
		case *ssa.ChangeInterface:
			v = x.X
		case *ssa.MakeInterface:
			v = x.X
		case *ssa.UnOp:
			if g, ok := x.X.(*ssa.Global); ok && x.Op == token.MUL {
				return g
			}
			return nil
		default:
			return nil
		}
	}
}

// abortEvent: panic(G) for a package-level sentinel G that a contract file declares as an outcome ("on panic G do ...",
// e.g. net/http.ErrAbortHandler: the documented way to abort a response). The ghost statements run, then the function
// under verification ends here: its postconditions and frame are checked in this state. Supported only when no
// deferred call is still pending in any frame and the verified function has no results.
func (vc *VC) abortEvent(st *State, fr *Frame, x *ssa.Panic) bool {
	g := panicGlobal(x.X)
	if g == nil {
		return false
	}
	var matched []*Event
	for _, ev := range vc.events {
		if ev.Kind == "panic" && ev.Target == g.Pkg.Pkg.Path()+"."+g.Name() {
			matched = append(matched, ev)
		}
	}
	if len(matched) == 0 {
		return false
	}
	top := fr
	for f := fr; f != nil; f = f.parent {
		if len(f.defers) > 0 {
			panic(unsupported("panic(" + g.Name() + ") with deferred calls still pending"))
		}
		top = f
	}
	if top.fn.Signature.Results().Len() > 0 {
		panic(unsupported("panic(" + g.Name() + ") in a function with results"))
	}
	for _, ev := range matched {
		vc.fireEvent(st, fr, ev, map[string]nameEntry{}, x.Pos())
	}
	st.trail = append(st.trail, "aborted by panic("+g.Name()+") at "+vc.pos(x.Pos()))
	vc.finishTop(st, top, nil, x.Pos())
	return true
}

func (vc *VC) doReturn(st *State, fr *Frame, ret *ssa.Return) {
	var results []Val
	for _, r := range ret.Results {
		results = append(results, vc.value(st, fr, r))
	}
	if fr.parent != nil {
		// inlined frame: continue in the caller
		caller := fr.parent
		if fr.retInstr != nil {
			if v, ok := fr.retInstr.(ssa.Value); ok {
				switch len(results) {
				case 0:
				case 1:
					caller.env[v] = results[0]
				default:
					caller.env[v] = TupleV{results}
				}
			}
		}
		if fr.retReexec {
			vc.runInstrs(st, caller, fr.retBlock, fr.retIdx)
		} else {
			vc.runInstrs(st, caller, fr.retBlock, fr.retIdx+1)
		}
		return
	}
	st.trail = append(st.trail, "return at "+vc.pos(ret.Pos()))
	vc.finishTop(st, fr, results, ret.Pos())
}

// finishTop: end of the function under verification: ghost statements, ensures, frame
func (vc *VC) finishTop(st *State, fr *Frame, results []Val, pos token.Pos) {
	con := fr.contract
	extra := map[string]nameEntry{}
	sig := fr.fn.Signature
	for i, r := range results {
		t := sig.Results().At(i).Type()
		extra[fmt.Sprintf("result%d", i)] = nameEntry{V: r, T: t}
		if n := sig.Results().At(i).Name(); n != "" && n != "_" {
			extra[n] = nameEntry{V: r, T: t}
		}
		if len(results) == 1 {
			extra["result"] = nameEntry{V: r, T: t}
		}
	}
	vc.canary(st, fr, "some_return_reachable", fr.fn.Pos())
	for _, gs := range con.AtReturn {
		vc.runGhost(st, fr, gs, extra, pos)
	}
	env := vc.specEnv(st, fr, extra)
	for _, e := range con.Ensures {
		vc.checkClause(st, fr, env, "ensures", e, "", pos)
	}
	vc.checkFrame(st, fr, pos)
}

// checkFrame: every heap array written on this path must be covered by the modifies clause.
func (vc *VC) checkFrame(st *State, fr *Frame, pos token.Pos) {
	con := fr.contract
	if !con.HasMod {
		return
	}
	allowed := vc.modPolicyOf(con)
	var names []string
	for a := range st.written {
		names = append(names, a)
	}
	sort.Strings(names)
	for _, a := range names {
		if strings.HasPrefix(a, "VIS_") {
			continue
		}
		cur := st.arr[a]
		init := a + "!0"
		if cur == init {
			continue
		}
		pol, ok := allowed[a]
		vc.counter++
		o := fmt.Sprintf("o!%d", vc.counter)
		if !ok {
			// objects allocated before entry must be unchanged
			goal := fmt.Sprintf("(forall ((%s Int)) (=> (and (<= 0 %s) (< %s alloc!0)) (= (select %s %s) (select %s %s))))", o, o, o, cur, o, init, o)
			if strings.HasPrefix(a, "GG_") {
				goal = sEq(cur, init)
			}
			vc.check(st, fr, "frame", "unmodified:"+a, contractTags(con), goal, pos)
			continue
		}
		if !pol.unrestricted {
			env := vc.specEnv(st, fr, nil)
			env.inOld = true
			goal := fmt.Sprintf("(forall ((%s Int)) (=> (and (<= 0 %s) (< %s alloc!0) %s) (= (select %s %s) (select %s %s))))", o, o, o, notInSet(env, o, pol.at), cur, o, init, o)
			vc.check(st, fr, "frame", "modifies-at:"+a, contractTags(con), goal, pos)
		}
	}
}

// viewCopy models s[lo:hi] with lo != 0 as a fresh read-only backing array whose elements equal the
// originals (sound while neither alias is written; writes through a view are rejected).
func (vc *VC) viewCopy(st *State, sl SliceV, lo, ln string, el types.Type) Val {
	nb := st.newRef()
	for _, l := range vc.leaves(el) {
		name, sort := vc.elemArr(typeKey(el), l.Path, l)
		a := st.array(name, sort)
		fresh := st.fresh("view", arrSort(SInt, l.Sort))
		vc.counter++
		i := fmt.Sprintf("i!%d", vc.counter)
		st.assume(fmt.Sprintf("(forall ((%s Int)) (! (= (select %s %s) (select (select %s %s) (+ %s %s))) :pattern ((select %s %s))))", i, fresh, i, a, sl.Base, lo, i, fresh, i))
		st.setArray(name, sort, sStore(a, nb, fresh))
	}
	st.views = append(st.views, nb)
	return SliceV{Base: nb, Off: "0", Len: ln}
}

type modPolicy struct {
	unrestricted bool
	at           []Expr
}

// modPolicyOf: per heap array, what the contract allows to change (most permissive item wins).
func (vc *VC) modPolicyOf(con *Contract) map[string]*modPolicy {
	out := map[string]*modPolicy{}
	for _, mi := range con.Modifies {
		if mi.Kind == "elemsof" && vc.curFunc != nil {
			// elements of a slice parameter of the function under verification
			for _, p := range vc.curFunc.Params {
				if p.Name() != mi.Path {
					continue
				}
				if sl, ok := p.Type().Underlying().(*types.Slice); ok {
					for _, l := range vc.leaves(sl.Elem()) {
						n, _ := vc.elemArr(typeKey(sl.Elem()), l.Path, l)
						pol := out[n]
						if pol == nil {
							pol = &modPolicy{}
							out[n] = pol
						}
						pol.at = append(pol.at, &EIdent{Name: mi.Path})
					}
				}
			}
		}
	}
	for _, mi := range con.Modifies {
		for _, a := range vc.modItemArrays(con, mi) {
			p := out[a]
			if p == nil {
				p = &modPolicy{}
				out[a] = p
			}
			if mi.At == nil {
				p.unrestricted = true
			} else {
				p.at = append(p.at, mi.At...)
			}
		}
	}
	return out
}

// notInSet builds the condition "o is none of the objects in at" (at evaluated in env).
func notInSet(env *SpecEnv, o string, at []Expr) string {
	var ne []string
	for _, e := range at {
		v, _ := env.eval(e)
		switch x := v.(type) {
		case Sc:
			ne = append(ne, sNot(sEq(o, x.T)))
		case SliceV:
			// the nil slice (base 0) has no elements: naming it permits no change
			ne = append(ne, sOr(sNot(sEq(o, x.Base)), sEq(x.Base, "0")))
		case LocV:
			ne = append(ne, sNot(sEq(o, x.Obj)))
		default:
			sfail("modifies at: unsupported object expression %s", e)
		}
	}
	return sAnd(ne...)
}

// canary records a reachability probe: "false" must NOT be provable here. Probes are grouped; a group passes
// when at least one of its members is not refuted (some paths are legitimately infeasible).
func (vc *VC) canary(st *State, fr *Frame, group string, site token.Pos) {
	top := fr
	for top.parent != nil {
		top = top.parent
	}
	name := vc.oblName(top.fn, "canary", group)
	if len(vc.canaries[name]) >= 4 {
		return
	}
	o := &Obligation{Name: name, Func: top.fn.String(), Kind: "canary", Tags: contractTags(top.contract), Expect: "notunsat", Site: vc.pos(site)}
	saved := vc.obls
	vc.emit(st, o, "false")
	vc.obls = saved
	vc.canaries[name] = append(vc.canaries[name], o)
	vc.canaryOrder = append(vc.canaryOrder, name)
}

// initGhost is kept for call sites that know the type; all ghost fields are initialised by newRef.
func (vc *VC) initGhost(st *State, t types.Type, ref string) {}

// initGhostAll gives every ghost field its default value at a freshly allocated reference.
func (vc *VC) initGhostAll(st *State, ref string) {
	var keys []string
	for k := range vc.gfields {
		keys = append(keys, k)
	}
	sort.Strings(keys)
	for _, k := range keys {
		g := vc.gfields[k]
		s := ghostSort(g.GoTyp)
		name := "G_" + strings.TrimSuffix(k, "."+g.Field) + "__" + g.Field
		vc.arrSorts[name] = arrSort(SInt, s)
		a := st.array(name, arrSort(SInt, s))
		def := zeroOf(s)
		if strings.HasPrefix(string(s), "(Array") {
			def = "((as const " + string(s) + ") false)"
			if strings.HasSuffix(string(s), "Int)") {
				def = "((as const " + string(s) + ") 0)"
			}
		}
		st.arr[name] = st.fresh(name, arrSort(SInt, s))
		st.asm = append(st.asm, sEq(st.arr[name], sStore(a, ref, def)))
		st.written[name] = true
	}
}

// sendEvent fires "on send T.chanfield(owner, value)" events for a send on a channel loaded from a struct field.
func (vc *VC) sendEvent(st *State, fr *Frame, x *ssa.Send) {
	ownerV, field, _ := mapOwner(x.Chan)
	fired := false
	for _, ev := range vc.events {
		if ev.Kind != "send" {
			continue
		}
		full, err := vc.qualify(ev.Target, vc.pkgOf(ev.Pkg), 2)
		if err != nil || ownerV == nil || full != field {
			continue
		}
		extra := map[string]nameEntry{}
		if len(ev.Vars) > 0 {
			extra[ev.Vars[0]] = nameEntry{V: vc.value(st, fr, ownerV), T: ownerV.Type()}
		}
		if len(ev.Vars) > 1 {
			extra[ev.Vars[1]] = nameEntry{V: vc.value(st, fr, x.X), T: x.X.Type()}
		}
		vc.fireEvent(st, fr, ev, extra, x.Pos())
		fired = true
	}
	if !fired {
		vc.noteAbstracted("channel send (not modelled)")
	}
}
