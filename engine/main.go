package main

import (
	"regexp"
	"encoding/json"
	"flag"
	"fmt"
	"os"
	"path/filepath"
	"runtime"
	"sort"
	"strings"
	"time"

	"golang.org/x/tools/go/packages"
	"golang.org/x/tools/go/ssa"
	"golang.org/x/tools/go/ssa/ssautil"
)

var verifDir = "/verif"
var repoDir = "/repo"

func main() {
	if len(os.Args) < 2 {
		fmt.Fprintln(os.Stderr, "usage: govc check|verify ...")
		os.Exit(2)
	}
	if d := os.Getenv("VERIF_DIR"); d != "" {
		verifDir = d
	}
	if d := os.Getenv("VERIF_REPO"); d != "" {
		repoDir = d
	}
	switch os.Args[1] {
	case "verify":
		cmdVerify(os.Args[2:])
	case "check":
		cmdCheck(os.Args[2:])
	case "replay":
		cmdReplay(os.Args[2:])
	case "leaves":
		cmdLeaves(os.Args[2:])
	case "selftest":
		cmdSelftest(os.Args[2:])
	default:
		fmt.Fprintln(os.Stderr, "unknown command")
		os.Exit(2)
	}
}

var stripAlpha = regexp.MustCompile(`_[0-9]+\b`)

func loadEnv() []string {
	env := os.Environ()
	env = append(env, "GOFLAGS=-mod=mod", "GOPROXY=off", "GOSUMDB=off", "GOTOOLCHAIN=local")
	return env
}

// load loads packages (patterns relative to the repo) with the verif tag and registers all contracts.
func load(patterns []string, overlay map[string][]byte) (*VC, error) {
	cfg := &packages.Config{Mode: packages.LoadAllSyntax, Dir: repoDir, BuildFlags: []string{"-tags=verif"}, Env: loadEnv(), Overlay: overlay}
	pkgs, err := packages.Load(cfg, patterns...)
	if err != nil {
		return nil, err
	}
	var errs []string
	packages.Visit(pkgs, nil, func(p *packages.Package) {
		for _, e := range p.Errors {
			if strings.HasPrefix(p.PkgPath, "tkestack.io/kvass") {
				errs = append(errs, e.Error())
			}
		}
	})
	if len(errs) > 0 {
		return nil, fmt.Errorf("load errors: %s", strings.Join(errs, "; "))
	}
	prog, _ := ssautil.AllPackages(pkgs, ssa.GlobalDebug|ssa.InstantiateGenerics)
	vc := newVC()
	vc.prog = prog
	vc.pkgs = pkgs
	// build only what we need lazily: build kvass packages and their deps on demand
	for _, sp := range prog.AllPackages() {
		vc.ssaPkgs[sp.Pkg.Path()] = sp
	}
	var kv []*packages.Package
	packages.Visit(pkgs, nil, func(p *packages.Package) {
		if strings.HasPrefix(p.PkgPath, "tkestack.io/kvass") {
			kv = append(kv, p)
		}
	})
	sort.Slice(kv, func(i, j int) bool { return kv[i].PkgPath < kv[j].PkgPath })
	for _, p := range kv {
		vc.ssaPkgs[p.PkgPath].Build()
	}
	// trusted specs first (opaque types influence leaves)
	specs, _ := filepath.Glob(filepath.Join(verifDir, "trusted", "*.spec"))
	sort.Strings(specs)
	var parsed []*SpecFile
	var parsedPkg []*packages.Package
	for _, f := range specs {
		src, err := os.ReadFile(f)
		if err != nil {
			return nil, err
		}
		sf, err := parseSpec(string(src), f, "")
		if err != nil {
			return nil, err
		}
		parsed = append(parsed, sf)
		parsedPkg = append(parsedPkg, nil)
	}
	for _, p := range kv {
		for i, f := range p.CompiledGoFiles {
			if !strings.HasSuffix(f, "_verif.go") {
				continue
			}
			var src []byte
			if o, ok := overlay[f]; ok {
				src = o
			} else {
				src, err = os.ReadFile(f)
				if err != nil {
					return nil, err
				}
			}
			_ = i
			sf, err := parseSpec(extractBlocks(string(src)), strings.TrimPrefix(f, repoDir+"/"), p.PkgPath)
			if err != nil {
				return nil, err
			}
			parsed = append(parsed, sf)
			parsedPkg = append(parsedPkg, p)
		}
	}
	// opaque declarations before anything computes leaves
	for _, sf := range parsed {
		for _, o := range sf.Opaque {
			vc.opaque[o] = true
		}
	}
	for i, sf := range parsed {
		if err := vc.addSpec(sf, parsedPkg[i]); err != nil {
			return nil, err
		}
	}
	return vc, nil
}

func (vc *VC) buildFor(fn *ssa.Function) {
	if fn.Pkg != nil {
		fn.Pkg.Build()
	}
}

func cmdVerify(args []string) {
	fs := flag.NewFlagSet("verify", flag.ExitOnError)
	pkgsFlag := fs.String("pkgs", "./pkg/coordinator", "comma separated package patterns")
	funcs := fs.String("funcs", "", "comma separated function names (as in contracts); empty = all with contracts in those packages")
	timeout := fs.Int("timeout", 10, "per-obligation timeout (s)")
	out := fs.String("out", filepath.Join(verifDir, "out", "verify"), "scratch directory")
	verbose := fs.Bool("v", false, "verbose")
	fs.Parse(args)
	start := time.Now()
	vc, err := load(strings.Split(*pkgsFlag, ","), nil)
	if err != nil {
		fmt.Fprintln(os.Stderr, "load:", err)
		os.Exit(2)
	}
	fmt.Printf("loaded in %.1fs\n", time.Since(start).Seconds())
	targets := vc.selectFunctions(strings.Split(*funcs, ","), strings.Split(*pkgsFlag, ","))
	for _, fn := range targets {
		vc.buildFor(fn)
		vc.verifyFunction(fn, vc.contracts[fn], vc.pkgOf(fn.Pkg.Pkg.Path()))
	}
	fmt.Printf("generated %d obligations in %.1fs\n", len(vc.obls), time.Since(start).Seconds())
	os.RemoveAll(*out)
	vc.solveAll(*out, *timeout, runtime.NumCPU(), false)
	bad := 0
	for _, o := range vc.obls {
		if o.Status != "proved" {
			bad++
			txt := stripAlpha.ReplaceAllString(o.Text, "")
			if len(txt) > 160 {
				txt = txt[:160] + "..."
			}
			fmt.Printf("FAIL [%s] %s tags=%v site=%s solver=%s t=%.2fs %s  | %s\n", o.Status, o.Name, o.Tags, o.Site, o.Solver, o.Time, o.Failed, txt)
			if *verbose {
				for _, t := range o.Trail {
					fmt.Println("      ", t)
				}
				fmt.Printf("       smt: %s/o%05d.smt2\n", *out, o.ID)
			}
		} else if *verbose {
			fmt.Printf("ok   %s [%s %.2fs]\n", o.Name, o.Solver, o.Time)
		}
	}
	fmt.Printf("%d obligations, %d not proved, %.1fs\n", len(vc.obls), bad, time.Since(start).Seconds())
	for f, m := range vc.abstracted {
		var ks []string
		for k := range m {
			ks = append(ks, k)
		}
		sort.Strings(ks)
		fmt.Printf("abstracted in %s: %s\n", f, strings.Join(ks, ", "))
	}
	if bad > 0 {
		os.Exit(1)
	}
}

func (vc *VC) selectFunctions(names []string, patterns []string) []*ssa.Function {
	var out []*ssa.Function
	if len(names) == 1 && names[0] == "" {
		for fn, c := range vc.contracts {
			if c.Trusted || c.Pkg == "" {
				continue
			}
			out = append(out, fn)
		}
	} else {
		for _, n := range names {
			var found *ssa.Function
			for fn, c := range vc.contracts {
				if c.Pkg == "" {
					continue
				}
				if c.Name == n || funcShort(fn) == n || strings.HasSuffix(funcShort(fn), "."+n) {
					found = fn
				}
			}
			if found == nil {
				fmt.Fprintf(os.Stderr, "no contract for function %q\n", n)
				os.Exit(2)
			}
			out = append(out, found)
		}
	}
	sort.Slice(out, func(i, j int) bool { return out[i].String() < out[j].String() })
	return out
}

func writeJSON(path string, v interface{}) error {
	b, err := json.MarshalIndent(v, "", " ")
	if err != nil {
		return err
	}
	os.MkdirAll(filepath.Dir(path), 0o755)
	return os.WriteFile(path, append(b, '\n'), 0o644)
}

