package main

// Replay of failed obligations on the real code: an in-package test injected with `go test -overlay`.

import (
	"sort"
	"context"
	"encoding/json"
	"fmt"
	"os"
	"os/exec"
	"path/filepath"
	"regexp"
	"strconv"
	"strings"
	"time"
)

type replayHarness struct {
	PkgDir  string   // relative to the repo, e.g. pkg/coordinator
	Source  string   // file under /verif/replay
	StubTests []string // existing _test.go files to replace by empty stubs (packages whose own tests do not compile)
}

var harnesses = map[string]replayHarness{
	"coordinator": {PkgDir: "pkg/coordinator", Source: "coordinator.go.txt"},
	"sidecar": {PkgDir: "pkg/sidecar", Source: "sidecar.go.txt", StubTests: []string{"injector_test.go", "proxy_test.go", "service_test.go", "targets_test.go"}},
	"scrape":  {PkgDir: "pkg/scrape", Source: "scrape.go.txt"},
	"target":  {PkgDir: "pkg/target", Source: "target.go.txt"},
	"shard":   {PkgDir: "pkg/shard", Source: "shard.go.txt"},
	"kubernetes": {PkgDir: "pkg/shard/kubernetes", Source: "kubernetes.go.txt"},
	"explore": {PkgDir: "pkg/explore", Source: "explore.go.txt"},
	"discovery": {PkgDir: "pkg/discovery", Source: "discovery.go.txt"},
	"prom":      {PkgDir: "pkg/prom", Source: "prom.go.txt"},
}

var numRe = regexp.MustCompile(`\b[0-9]{1,13}\b`)

// modelNumbers extracts the integer constants of a solver model (the counterexample's values seed the search grid).
func modelNumbers(model string) []int64 {
	seen := map[int64]bool{}
	var out []int64
	for _, m := range numRe.FindAllString(model, -1) {
		n, err := strconv.ParseInt(m, 10, 64)
		if err != nil || seen[n] {
			continue
		}
		seen[n] = true
		out = append(out, n)
		if len(out) > 40 {
			break
		}
	}
	return out
}

// harnessFor picks the harness from the obligation's function (package prefix of the short name).
func harnessFor(o *Obligation) (replayHarness, string, bool) {
	name := o.Name
	i := strings.Index(name, ".")
	if i < 0 {
		return replayHarness{}, "", false
	}
	pk := name[:i]
	if strings.HasPrefix(name, "shard/kubernetes.") {
		pk = "kubernetes"
	}
	h, ok := harnesses[pk]
	if !ok {
		return replayHarness{}, "", false
	}
	if _, err := os.Stat(filepath.Join(verifDir, "replay", h.Source)); err != nil {
		return replayHarness{}, "", false
	}
	return h, pk, true
}

func funcOfObligation(name string) string {
	if i := strings.Index(name, "/"); i >= 0 {
		// careful: package paths like shard/kubernetes.X contain '/'
		rest := name
		if strings.HasPrefix(name, "shard/kubernetes.") {
			j := strings.Index(name[len("shard/"):], "/")
			if j >= 0 {
				return name[:len("shard/")+j]
			}
			return rest
		}
		return name[:i]
	}
	return name
}

func runHarness(h replayHarness, req map[string]interface{}, tag string) (map[string]interface{}, string, error) {
	scratch := filepath.Join(verifDir, "out", "replay-work", tag)
	os.MkdirAll(scratch, 0o755)
	reqFile := filepath.Join(scratch, "req.json")
	outFile := filepath.Join(scratch, "out.json")
	os.Remove(outFile)
	if err := writeJSON(reqFile, req); err != nil {
		return nil, "", err
	}
	src := filepath.Join(verifDir, "replay", h.Source)
	ov := map[string]string{filepath.Join(repoDir, h.PkgDir, "zz_verif_replay_test.go"): src}
	if len(h.StubTests) > 0 {
		// the package's own tests do not compile at this commit: replace them by a stub in the overlay
		b, _ := os.ReadFile(src)
		pkgLine := "package main\n"
		for _, ln := range strings.Split(string(b), "\n") {
			if strings.HasPrefix(ln, "package ") {
				pkgLine = ln + "\n"
				break
			}
		}
		stub := filepath.Join(scratch, "stub_test.go")
		os.WriteFile(stub, []byte(pkgLine), 0o644)
		for _, t := range h.StubTests {
			p := filepath.Join(repoDir, h.PkgDir, t)
			if _, err := os.Stat(p); err == nil {
				ov[p] = stub
			}
		}
	}
	ovFile := filepath.Join(scratch, "overlay.json")
	writeJSON(ovFile, map[string]interface{}{"Replace": ov})
	ctx, cancel := context.WithTimeout(context.Background(), 240*time.Second)
	defer cancel()
	args := []string{"test", "-overlay", ovFile, "-vet=off", "-count=1", "-timeout", "180s", "-run", "^TestVerifReplay$"}
	if r, _ := req["race"].(bool); r {
		// concurrent scenarios run under the Go race detector: a reported race makes the test binary fail
		args = append(args, "-race")
	}
	args = append(args, "./"+h.PkgDir)
	cmd := exec.CommandContext(ctx, "go", args...)
	cmd.Dir = repoDir
	// temporary directories of the harness (store directories of simulated shards, ...) live under the run's scratch directory
	// and are removed with it, also when the test binary is killed by its time-out and its own clean-up never runs
	tmpDir := filepath.Join(scratch, "tmp")
	os.MkdirAll(tmpDir, 0o755)
	defer os.RemoveAll(tmpDir)
	cmd.Env = append(loadEnv(), "VERIF_REPLAY_REQ="+reqFile, "VERIF_REPLAY_OUT="+outFile, "TMPDIR="+tmpDir)
	outb, err := cmd.CombinedOutput()
	text := string(outb)
	if len(text) > 6000 {
		text = text[:6000]
	}
	b, rerr := os.ReadFile(outFile)
	if rerr != nil {
		return nil, text, fmt.Errorf("replay harness produced no result (go test: %v)", err)
	}
	var res map[string]interface{}
	if err := json.Unmarshal(b, &res); err != nil {
		return nil, text, err
	}
	if r, _ := req["race"].(bool); r {
		if i := strings.Index(text, "WARNING: DATA RACE"); i >= 0 {
			// the race detector's report is the violation: the two accesses and their functions
			var lines []string
			for _, ln := range strings.Split(text[i:], "\n") {
				t := strings.TrimSpace(ln)
				if strings.HasPrefix(t, "Read at") || strings.HasPrefix(t, "Write at") || strings.HasPrefix(t, "Previous") || strings.HasPrefix(t, "tkestack.io/kvass") {
					lines = append(lines, t)
				}
				if len(lines) >= 6 {
					break
				}
			}
			if f, _ := res["found"].(bool); !f {
				res["found"] = true
				res["violation"] = "data_race: the Go race detector reports unsynchronised accesses: " + strings.Join(lines, " | ")
				res["state"] = map[string]interface{}{"seed": 0}
			}
		}
	}
	return res, text, nil
}

// tryReplay searches for a concrete failing input of a failed obligation on the real code.
func tryReplay(pc *PropConfig, o *Obligation, rep map[string]interface{}, seed int) bool {
	if o.Kind == "canary" || (o.Kind == "engine" && !strings.Contains(o.Name, "/engine:error")) {
		rep["replay"] = "not applicable for " + o.Kind + " obligations"
		return false
	}
	h, hname, ok := harnessFor(o)
	if !ok {
		rep["replay"] = "no replay harness for this function"
		return false
	}
	oblName := o.Name
	if o.Kind == "engine" {
		// the engine could not process the function (e.g. a new helper outside the subset): nothing was decided by proof;
		// the harness still searches the real function for an input that violates any clause of its oracles
		oblName = ""
	}
	req := map[string]interface{}{
		"obligation": oblName, "func": funcOfObligation(o.Name), "numbers": modelNumbers(o.Model), "seed": seed, "budget": 30000,
	}
	if o.Kind == "engine" && currentVC != nil {
		// only violations of clauses that carry THIS property count as its counterexample
		req["clauses"] = clauseNamesFor(currentVC, pc.ID)
	}
	res, text, err := runHarness(h, req, sanitize(o.Name))
	rep["replay_harness"] = hname
	rep["replay_request"] = req
	if err != nil {
		rep["replay"] = "harness error: " + err.Error()
		rep["replay_output"] = text
		return false
	}
	rep["replay_result"] = res
	found, _ := res["found"].(bool)
	if found {
		rep["replay"] = "counterexample found on the real code"
		rep["replay_cmd"] = "cd /verif && ./check replay <this file>"
	} else {
		rep["replay"] = "no failing input found within the search budget"
	}
	return found
}

// cmdReplay re-runs a recorded witness: exit 1 if the real code still violates the clause.
func cmdReplay(args []string) {
	if len(args) < 1 {
		fmt.Fprintln(os.Stderr, "usage: govc replay <file>")
		os.Exit(2)
	}
	b, err := os.ReadFile(args[0])
	if err != nil {
		fmt.Fprintln(os.Stderr, err)
		os.Exit(2)
	}
	var rep map[string]interface{}
	if err := json.Unmarshal(b, &rep); err != nil {
		fmt.Fprintln(os.Stderr, err)
		os.Exit(2)
	}
	prop, _ := rep["property"].(string)
	obl, _ := rep["obligation"].(string)
	rr, _ := rep["replay_result"].(map[string]interface{})
	if rr == nil || rr["state"] == nil {
		fmt.Printf("replay file carries no concrete input (obligation %s); solver outputs are in the file\n", obl)
		fmt.Printf("VIOLATION property=%s replay=%s no-failing-input-found\n", prop, args[0])
		os.Exit(1)
	}
	o := &Obligation{Name: obl}
	h, _, ok := harnessFor(o)
	if !ok {
		fmt.Fprintln(os.Stderr, "no harness for", obl)
		os.Exit(2)
	}
	req := map[string]interface{}{"obligation": obl, "func": funcOfObligation(obl), "state": rr["state"]}
	res, text, err := runHarness(h, req, "replay-"+sanitize(obl))
	if err != nil {
		fmt.Fprintln(os.Stderr, "harness error:", err)
		fmt.Fprintln(os.Stderr, text)
		os.Exit(2)
	}
	if f, _ := res["found"].(bool); f {
		fmt.Printf("replayed on the real code: %v\n", res["violation"])
		fmt.Printf("VIOLATION property=%s replay=%s\n", prop, args[0])
		os.Exit(1)
	}
	fmt.Println("the recorded input no longer violates the clause")
}

// currentVC is the verifier state of the running check (set by cmdCheck)
var currentVC *VC

// clauseNamesFor: names of all named clauses (ensures, requires, invariants, event assertions) tagged with the property
func clauseNamesFor(vc *VC, id string) []string {
	seen := map[string]bool{}
	add := func(c *Clause) {
		if c == nil || c.Name == "" {
			return
		}
		for _, t := range c.Tags {
			if t == id {
				seen[c.Name] = true
			}
		}
	}
	for _, c := range vc.contracts {
		for _, e := range c.Requires {
			add(e)
		}
		for _, e := range c.Ensures {
			add(e)
		}
		for _, l := range c.Loops {
			for _, e := range l.Invariants {
				add(e)
			}
		}
	}
	for _, ev := range vc.events {
		for _, gs := range ev.Stmts {
			add(gs.Assert)
		}
	}
	var out []string
	for n := range seen {
		out = append(out, n)
	}
	sort.Strings(out)
	return out
}
