package main

// Self-test corpus: must-fail mutants and must-pass (harmless) edits, applied as overlays (nothing is written to /repo).

import (
	"runtime/debug"
	"golang.org/x/tools/go/ssa"
	"encoding/json"
	"flag"
	"fmt"
	"os"
	"path/filepath"
	"sort"
	"strings"
	"time"
)

type Mutant struct {
	Name     string `json:"name"`
	Property string `json:"property"`
	File     string `json:"file"` // relative to the repo
	Find     string `json:"find"`
	Replace  string `json:"replace"`
	Expect   string `json:"expect"` // "pass" for harmless edits, else a substring of a failing obligation's name
	Note     string `json:"note,omitempty"`
}

func cmdSelftest(args []string) {
	fs := flag.NewFlagSet("selftest", flag.ExitOnError)
	only := fs.String("only", "", "run only mutants whose name contains this")
	prop := fs.String("prop", "", "run only mutants of this property")
	fs.Parse(args)
	_, bad := runMutants(*prop, *only, true)
	if bad > 0 {
		fmt.Printf("selftest: %d unexpected results\n", bad)
		os.Exit(1)
	}
	fmt.Println("selftest: all as expected")
}

// runMutants applies the corpus entries of one property (or all) as overlays and reports, per entry, whether the check
// behaves as expected (a must-fail mutant fails a named obligation, a harmless edit passes).
func runMutants(propFilter, only string, verbose bool) ([]map[string]interface{}, int) {
	prop, onlyP := &propFilter, &only
	only2 := onlyP
	_ = only2
	files, _ := filepath.Glob(filepath.Join(verifDir, "selftest", "*.json"))
	sort.Strings(files)
	var muts []Mutant
	for _, f := range files {
		b, err := os.ReadFile(f)
		if err != nil {
			fmt.Fprintln(os.Stderr, err)
			os.Exit(2)
		}
		var ms []Mutant
		if err := json.Unmarshal(b, &ms); err != nil {
			fmt.Fprintln(os.Stderr, f, err)
			os.Exit(2)
		}
		muts = append(muts, ms...)
	}
	props := readProps()
	bad := 0
	results := []map[string]interface{}{}
	for _, m := range muts {
		if *onlyP != "" && !strings.Contains(m.Name, *onlyP) {
			continue
		}
		if *prop != "" && m.Property != *prop {
			continue
		}
		pc := props[m.Property]
		if pc == nil {
			fmt.Printf("SELFTEST-ERROR %s: property %s not configured\n", m.Name, m.Property)
			bad++
			continue
		}
		path := filepath.Join(repoDir, m.File)
		src, err := os.ReadFile(path)
		if err != nil {
			fmt.Printf("SELFTEST-ERROR %s: %v\n", m.Name, err)
			bad++
			continue
		}
		if strings.Count(string(src), m.Find) != 1 {
			fmt.Printf("SELFTEST-ERROR %s: pattern occurs %d times in %s (want exactly 1)\n", m.Name, strings.Count(string(src), m.Find), m.File)
			bad++
			continue
		}
		mut := strings.Replace(string(src), m.Find, m.Replace, 1)
		start := time.Now()
		outDir := filepath.Join(verifDir, "out", "selftest", sanitize(m.Name))
		os.RemoveAll(outDir)
		res := runProperty(pc, "quick", 10, outDir, map[string][]byte{path: []byte(mut)})
		var failed []string
		if res.loadErr != nil {
			failed = append(failed, "load: "+res.loadErr.Error())
		}
		for _, o := range res.relevant {
			if o.Status != "proved" {
				failed = append(failed, o.Name)
			}
		}
		ok := false
		if m.Expect == "pass" {
			ok = len(failed) == 0
		} else {
			for _, f := range failed {
				if strings.Contains(f, m.Expect) {
					ok = true
				}
			}
		}
		verdict := "ok"
		if !ok {
			verdict = "UNEXPECTED"
			bad++
		}
		uniq := map[string]bool{}
		var show []string
		for _, f := range failed {
			f = conjunctSuffix.ReplaceAllString(f, "")
			if !uniq[f] {
				uniq[f] = true
				show = append(show, f)
			}
		}
		if len(show) > 6 {
			show = append(show[:6], fmt.Sprintf("... +%d", len(show)-6))
		}
		if verbose || verdict != "ok" {
			fmt.Printf("SELFTEST %-10s %s [%s] expect=%q failed=%v (%.0fs)\n", verdict, m.Name, m.Property, m.Expect, show, time.Since(start).Seconds())
		}
		results = append(results, map[string]interface{}{"name": m.Name, "property": m.Property, "expect": m.Expect, "verdict": verdict, "failed": show})
		os.RemoveAll(outDir)
		// every mutant loads its own SSA program: drop what refers to it (the whole corpus once grew to 65 GB and was killed)
		res = nil
		singleDefCache = map[*ssa.Function]map[string]ssa.Value{}
		debug.FreeOSMemory()
	}
	writeJSON(filepath.Join(verifDir, "out", "selftest-results.json"), results)
	return results, bad
}
