package main

// Solver back ends: z3 4.8.12 (z3), z3 5.1.0 (z3-new), cvc5 1.0.x — raced per obligation.

import (
	"context"
	"fmt"
	"os"
	"os/exec"
	"path/filepath"
	"strings"
	"sync"
	"time"
)

type solverSpec struct {
	name string
	argv func(file string, timeoutS int) []string
}

var solvers = []solverSpec{
	{"z3-new", func(f string, t int) []string { return []string{"z3-new", fmt.Sprintf("-T:%d", t), f} }},
	{"z3", func(f string, t int) []string { return []string{"z3", fmt.Sprintf("-T:%d", t), f} }},
	{"cvc5", func(f string, t int) []string {
		return []string{"cvc5", fmt.Sprintf("--tlimit=%d", t*1000), "--full-saturate-quant", f}
	}},
}

type solveResult struct {
	solver string
	answer string // unsat | sat | unknown | timeout | error
	out    string
	secs   float64
}

func runSolver(ctx context.Context, s solverSpec, file string, timeoutS int) solveResult {
	argv := s.argv(file, timeoutS)
	c, cancel := context.WithTimeout(ctx, time.Duration(timeoutS+2)*time.Second)
	defer cancel()
	start := time.Now()
	cmd := exec.CommandContext(c, argv[0], argv[1:]...)
	out, _ := cmd.CombinedOutput()
	secs := time.Since(start).Seconds()
	text := string(out)
	ans := "error"
	first := strings.TrimSpace(strings.SplitN(text, "\n", 2)[0])
	bad := false
	for _, ln := range strings.Split(text, "\n") {
		if strings.Contains(ln, "(error") && !strings.Contains(ln, "model is not available") && !strings.Contains(strings.ToLower(ln), "cannot get model") && !strings.Contains(ln, "unless immediately preceded by SAT") {
			bad = true
		}
	}
	switch {
	case bad:
		ans = "error"
	case first == "unsat":
		ans = "unsat"
	case first == "sat":
		ans = "sat"
	case first == "unknown":
		ans = "unknown"
	case first == "timeout" || c.Err() != nil:
		ans = "timeout"
	}
	return solveResult{s.name, ans, text, secs}
}

// solveAll discharges all obligations in parallel.
func (vc *VC) solveAll(outDir string, timeoutS int, par int, strict bool) {
	os.MkdirAll(outDir, 0o755)
	sem := make(chan struct{}, par)
	var wg sync.WaitGroup
	for _, o := range vc.obls {
		if o.Trivial || o.Failed != "" || o.SMT == "" {
			if o.Failed != "" {
				o.Status = "error"
			}
			continue
		}
		wg.Add(1)
		sem <- struct{}{}
		go func(o *Obligation) {
			defer wg.Done()
			defer func() { <-sem }()
			file := filepath.Join(outDir, fmt.Sprintf("o%05d.smt2", o.ID))
			smt := o.SMT
			if o.Expect == "unsat" {
				smt += "(get-model)\n"
			}
			os.WriteFile(file, []byte(smt), 0o644)
			o.SMTLen = len(smt)
			vc.solveOne(o, file, timeoutS, strict)
			if o.Status == "proved" && os.Getenv("GOVC_KEEP_SMT") == "" {
				// disk is limited: only the queries of undischarged obligations are kept (named in the replay file)
				os.Remove(file)
				o.SMT = ""
			}
		}(o)
	}
	wg.Wait()
	vc.solveCanaries(outDir, par)
}

// solveCanaries: each group passes if some member is not refuted within a short budget.
func (vc *VC) solveCanaries(outDir string, par int) {
	seen := map[string]bool{}
	var groups []string
	for _, g := range vc.canaryOrder {
		if !seen[g] {
			seen[g] = true
			groups = append(groups, g)
		}
	}
	results := make([]*Obligation, len(groups))
	sem := make(chan struct{}, par)
	var wg sync.WaitGroup
	for gi, g := range groups {
		wg.Add(1)
		sem <- struct{}{}
		go func(gi int, g string) {
			defer wg.Done()
			defer func() { <-sem }()
			members := vc.canaries[g]
			sum := *members[0]
			sum.Status = "vacuous"
			sum.Outputs = map[string]string{}
			for mi, m := range members {
				file := filepath.Join(outDir, fmt.Sprintf("canary_%d_%d.smt2", gi, mi))
				os.WriteFile(file, []byte(m.SMT), 0o644)
				defer os.Remove(file)
				refuted := false
				for _, s := range []solverSpec{solvers[0], solvers[2]} {
					r := runSolver(context.Background(), s, file, 2)
					sum.Time += r.secs
					sum.Outputs[s.name] = trimOut(r.out)
					if r.answer == "unsat" {
						refuted = true
						sum.Solver = s.name
						break
					}
				}
				if !refuted {
					sum.Status, sum.Solver = "proved", "canary"
					sum.Trail = m.Trail
					break
				}
			}
			results[gi] = &sum
		}(gi, g)
	}
	wg.Wait()
	for _, r := range results {
		vc.addObligation(r)
	}
}

func (vc *VC) solveOne(o *Obligation, file string, timeoutS int, strict bool) {
	o.Outputs = map[string]string{}
	ctx := context.Background()
	if o.Expect == "notunsat" {
		// canary: must NOT be unsat. 2 s budget on each solver; any unsat is a failure.
		for _, s := range solvers {
			r := runSolver(ctx, s, file, 2)
			o.Outputs[s.name] = trimOut(r.out)
			o.Time += r.secs
			if r.answer == "unsat" {
				o.Status = "vacuous"
				o.Solver = s.name
				return
			}
		}
		o.Status = "proved"
		o.Solver = "canary"
		return
	}
	// stage 1: z3-new with a short budget
	short := 3
	if timeoutS < short {
		short = timeoutS
	}
	r := runSolver(ctx, solvers[0], file, short)
	o.Outputs[r.solver] = trimOut(r.out)
	o.Time += r.secs
	if r.answer == "unsat" {
		o.Status, o.Solver = "proved", r.solver
		if !strict {
			return
		}
	}
	sawSat := ""
	if r.answer == "sat" {
		sawSat = r.solver
		o.Model = r.out
	}
	// stage 2: race all three with the full budget
	ctx2, cancel := context.WithCancel(ctx)
	defer cancel()
	ch := make(chan solveResult, len(solvers))
	for _, s := range solvers {
		go func(s solverSpec) { ch <- runSolver(ctx2, s, file, timeoutS) }(s)
	}
	proved := o.Status == "proved"
	for range solvers {
		r := <-ch
		if r.answer == "error" && ctx2.Err() != nil {
			continue
		}
		o.Outputs[r.solver] = trimOut(r.out)
		o.Time += r.secs
		switch r.answer {
		case "unsat":
			if !proved {
				proved = true
				o.Status, o.Solver = "proved", r.solver
			}
			if !strict {
				return
			}
		case "sat":
			if sawSat == "" || r.solver == "z3-new" {
				sawSat = r.solver
				o.Model = r.out
			}
		}
	}
	if proved && strict && sawSat != "" {
		o.Status = "disagree"
		return
	}
	if proved {
		return
	}
	if sawSat != "" {
		o.Status, o.Solver = "sat", sawSat
		return
	}
	o.Status = "unknown"
	// every back end rejected the query: an ill-formed VC is an engine/contract error, say so
	nerr := 0
	first := ""
	for _, out := range o.Outputs {
		if strings.Contains(out, "(error") {
			nerr++
			if first == "" {
				for _, ln := range strings.Split(out, "\n") {
					if strings.Contains(ln, "(error") && !strings.Contains(ln, "model is not available") {
						first = ln
						break
					}
				}
			}
		}
	}
	if nerr == len(o.Outputs) && first != "" {
		o.Status = "error"
		o.Failed = "all solvers rejected the query: " + first
	}
}

func trimOut(s string) string {
	if len(s) > 4000 {
		return s[:4000] + "\n...[truncated]"
	}
	return s
}
