package main

// Evaluation of contract expressions to SMT terms over a symbolic state.

import (
	"os"

	"golang.org/x/tools/go/ssa"
	"fmt"
	"go/constant"
	"go/types"
	"strings"

	"golang.org/x/tools/go/packages"
)

type nameEntry struct {
	V      Val
	T      types.Type
	IsAddr bool // V is the address of the variable (Alloc); load on use
}

type SpecEnv struct {
	st     *State
	cur    map[string]string // array versions for the "current" state (nil = st.arr live)
	old    map[string]string // array versions for old()
	oldAlloc string
	lookup func(name string) (nameEntry, bool)
	bound  map[string]nameEntry
	pkg    *packages.Package
	inOld  bool
	depth  int
}

type specErr struct{ msg string }

func (e specErr) Error() string { return e.msg }

func sfail(format string, a ...interface{}) {
	panic(specErr{fmt.Sprintf(format, a...)})
}

func (env *SpecEnv) snap() map[string]string {
	if env.inOld {
		return env.old
	}
	return env.cur
}

func (env *SpecEnv) withBound(name string, e nameEntry) *SpecEnv {
	n := *env
	n.bound = make(map[string]nameEntry, len(env.bound)+1)
	for k, v := range env.bound {
		n.bound[k] = v
	}
	n.bound[name] = e
	return &n
}

var tInt = types.Typ[types.Int]
var tBool = types.Typ[types.Bool]
var tString = types.Typ[types.String]

// setType is a marker type for spec-level sets.
type setType struct{ K types.Type }

func (s *setType) Underlying() types.Type { return s }
func (s *setType) String() string         { return "set[" + s.K.String() + "]" }

func (env *SpecEnv) evalBool(e Expr) string {
	v, _ := env.eval(e)
	sc, ok := v.(Sc)
	if !ok || sc.S != SBool {
		sfail("expected boolean expression: %s", e)
	}
	return sc.T
}

func (env *SpecEnv) evalInt(e Expr) string {
	v, _ := env.eval(e)
	sc, ok := v.(Sc)
	if !ok || (sc.S != SInt && sc.S != SReal) {
		sfail("expected integer expression: %s (got %T)", e, v)
	}
	return sc.T
}

func deref(t types.Type) (types.Type, bool) {
	if p, ok := t.Underlying().(*types.Pointer); ok {
		return p.Elem(), true
	}
	return t, false
}

func (env *SpecEnv) eval(e Expr) (Val, types.Type) {
	st := env.st
	vc := st.vc
	switch x := e.(type) {
	case *ENum:
		return intv(x.V), tInt
	case *EStr:
		return intv(vc.strLit(x.V)), tString
	case *EBool:
		if x.V {
			return boolv("true"), tBool
		}
		return boolv("false"), tBool
	case *ENil:
		return intv("0"), types.Typ[types.UntypedNil]
	case *EIdent:
		if b, ok := env.bound[x.Name]; ok {
			return b.V, b.T
		}
		if env.lookup != nil {
			if ne, ok := env.lookup(x.Name); ok {
				if os.Getenv("GOVC_DEBUG_NAMES") != "" {
					fmt.Fprintf(os.Stderr, "name %s -> %#v addr=%v type=%v\n", x.Name, ne.V, ne.IsAddr, ne.T)
				}
				if ne.IsAddr {
					el, _ := deref(ne.T)
					loc := st.ptrToLoc(ne.V, el)
					return st.loadLoc(loc, env.snap()), el
				}
				return ne.V, ne.T
			}
		}
		if g, ok := vc.gglobals[x.Name]; ok {
			s := ghostSort(g.GoTyp)
			gt := ghostType(g.GoTyp)
			if strings.HasPrefix(g.GoTyp, "ref[") {
				nt, err := vc.resolveNamed(g.GoTyp[4:len(g.GoTyp)-1], env.pkg)
				if err != nil {
					sfail("ghost global %s: %v", g.Name, err)
				}
				return Sc{st.arrayIn(env.snap(), "GG_"+g.Name, s), s}, types.NewPointer(nt)
			}
			if _, isSet := gt.(*setType); isSet {
				return SetV{T: st.arrayIn(env.snap(), "GG_"+g.Name, s), K: SInt}, gt
			}
			return Sc{st.arrayIn(env.snap(), "GG_"+g.Name, s), s}, gt
		}
		// package-level constant or variable in the current package
		if env.pkg != nil {
			if obj := env.pkg.Types.Scope().Lookup(x.Name); obj != nil {
				if c, ok := obj.(*types.Const); ok {
					return env.constVal(c), c.Type()
				}
				if gv, ok := obj.(*types.Var); ok {
					if sp := vc.ssaPkgs[env.pkg.PkgPath]; sp != nil {
						if g, ok := sp.Members[x.Name].(*ssa.Global); ok {
							id := vc.strLit("global:" + g.String())
							loc := LocV{Obj: "(- " + id + ")", Owner: "global_" + ownerKey(gv.Type()), Typ: gv.Type()}
							return st.loadLoc(loc, env.snap()), gv.Type()
						}
					}
				}
			}
		}
		sfail("unresolved name %q", x.Name)
	case *EOld:
		n := *env
		n.inOld = true
		return n.eval(x.X)
	case *EIte:
		c := env.evalBool(x.C)
		a, ta := env.eval(x.A)
		b, _ := env.eval(x.B)
		if sa, ok := a.(SetV); ok {
			if sb, ok := b.(SetV); ok {
				return SetV{T: sIte(c, sa.T, sb.T), K: sa.K}, ta
			}
		}
		as, ok1 := a.(Sc)
		bs, ok2 := b.(Sc)
		if !ok1 || !ok2 {
			sfail("ite on non-scalars: %s", e)
		}
		return Sc{sIte(c, as.T, bs.T), as.S}, ta
	case *EUn:
		switch x.Op {
		case "!":
			return boolv(sNot(env.evalBool(x.X))), tBool
		case "-":
			return intv("(- " + env.evalInt(x.X) + ")"), tInt
		}
	case *EBin:
		return env.evalBin(x)
	case *ESel:
		return env.evalSel(x)
	case *EIndex:
		return env.evalIndex(x)
	case *ESlice:
		v, t := env.eval(x.X)
		sl, ok := v.(SliceV)
		if !ok {
			sfail("slicing a non-slice: %s", e)
		}
		lo := "0"
		if x.Lo != nil {
			lo = env.evalInt(x.Lo)
		}
		hi := sl.Len
		if x.Hi != nil {
			hi = env.evalInt(x.Hi)
		}
		if lo != "0" {
			sfail("spec slicing with non-zero low bound is not supported: %s", e)
		}
		return SliceV{sl.Base, "0", hi}, t
	case *EQuant:
		return env.evalQuant(x)
	case *ECall:
		return env.evalCall(x)
	}
	sfail("cannot evaluate %s", e)
	return nil, nil
}

func (env *SpecEnv) constVal(c *types.Const) Val {
	v := c.Val()
	switch v.Kind() {
	case constant.String:
		return intv(env.st.vc.strLit(constant.StringVal(v)))
	case constant.Int:
		return intv(smtInt(v.ExactString()))
	case constant.Bool:
		if constant.BoolVal(v) {
			return boolv("true")
		}
		return boolv("false")
	case constant.Float:
		f, _ := constant.Float64Val(v)
		return Sc{smtReal(f), SReal}
	}
	sfail("unsupported constant %s", c.Name())
	return nil
}

func smtInt(s string) string {
	if strings.HasPrefix(s, "-") {
		return "(- " + s[1:] + ")"
	}
	return s
}

func smtReal(f float64) string {
	s := fmt.Sprintf("%.6f", f)
	if f < 0 {
		return "(- " + s[1:] + ")"
	}
	return s
}

func ghostSort(goTyp string) Sort {
	// "ref"-prefixed container types are keyed by references (entries of unallocated references are default)
	if strings.HasPrefix(goTyp, "refseq") || strings.HasPrefix(goTyp, "refsetmap") || strings.HasPrefix(goTyp, "refseqmap") {
		goTyp = goTyp[3:]
	}
	switch goTyp {
	case "int", "ref", "string":
		return SInt
	case "bool":
		return SBool
	case "real":
		return SReal
	}
	if strings.HasPrefix(goTyp, "ref[") {
		return SInt
	}
	if strings.HasPrefix(goTyp, "set[") {
		return arrSort(SInt, SBool)
	}
	if strings.HasPrefix(goTyp, "seq[") {
		return arrSort(SInt, SInt)
	}
	if goTyp == "seqmap" {
		return arrSort(SInt, arrSort(SInt, SInt))
	}
	if goTyp == "setmap" {
		return arrSort(SInt, arrSort(SInt, SBool))
	}
	panic("unknown ghost type " + goTyp)
}

func ghostType(goTyp string) types.Type {
	if strings.HasPrefix(goTyp, "refseq") || strings.HasPrefix(goTyp, "refsetmap") || strings.HasPrefix(goTyp, "refseqmap") {
		goTyp = goTyp[3:]
	}
	if strings.HasPrefix(goTyp, "ref[") {
		return tInt
	}
	switch goTyp {
	case "int", "ref":
		return tInt
	case "string":
		return tString
	case "bool":
		return tBool
	case "real":
		return types.Typ[types.Float64]
	}
	if strings.HasPrefix(goTyp, "set[") {
		return &setType{K: tInt}
	}
	if strings.HasPrefix(goTyp, "seq[") {
		return &seqType{}
	}
	if goTyp == "seqmap" {
		return &seqMapType{}
	}
	if goTyp == "setmap" {
		return &setMapType{}
	}
	panic("unknown ghost type " + goTyp)
}

// setMapType marks ghost maps from references to sets (Array Int (Array Int Bool)).
type setMapType struct{}

func (s *setMapType) Underlying() types.Type { return s }
func (s *setMapType) String() string         { return "setmap" }

// seqMapType marks ghost maps from references to integer sequences (Array Int (Array Int Int)).
type seqMapType struct{}

func (s *seqMapType) Underlying() types.Type { return s }
func (s *seqMapType) String() string         { return "seqmap" }

// seqType marks spec-level integer-indexed ghost arrays (Array Int Int).
type seqType struct{}

func (s *seqType) Underlying() types.Type { return s }
func (s *seqType) String() string         { return "seq" }

func (env *SpecEnv) evalSel(x *ESel) (Val, types.Type) {
	st := env.st
	vc := st.vc
	// package-qualified constant / variable?
	if id, ok := x.X.(*EIdent); ok {
		_, isBound := env.bound[id.Name]
		isLocal := false
		if env.lookup != nil {
			_, isLocal = env.lookup(id.Name)
		}
		if !isBound && !isLocal {
			if path, err := vc.pkgPathOf(id.Name, env.pkg); err == nil {
				if sp := vc.ssaPkgs[path]; sp != nil {
					if obj := sp.Pkg.Scope().Lookup(x.F); obj != nil {
						if c, ok := obj.(*types.Const); ok {
							return env.constVal(c), c.Type()
						}
					}
				}
			}
		}
	}
	v, t := env.eval(x.X)
	// struct value
	if sv, ok := v.(*StructV); ok {
		stt := sv.T.Underlying().(*types.Struct)
		for i := 0; i < stt.NumFields(); i++ {
			if stt.Field(i).Name() == x.F {
				return sv.F[i], stt.Field(i).Type()
			}
		}
		// embedded promotion (one level)
		for i := 0; i < stt.NumFields(); i++ {
			if stt.Field(i).Embedded() {
				if inner, ok := sv.F[i].(*StructV); ok {
					is := inner.T.Underlying().(*types.Struct)
					for j := 0; j < is.NumFields(); j++ {
						if is.Field(j).Name() == x.F {
							return inner.F[j], is.Field(j).Type()
						}
					}
				}
			}
		}
		sfail("no field %s in %s", x.F, sv.T)
	}
	if sl, ok := v.(SliceV); ok {
		switch x.F {
		case "len":
			return intv(sl.Len), tInt
		}
	}
	el, isPtr := deref(t)
	if !isPtr {
		sfail("field %s selected on non-pointer, non-struct value of type %s in %s", x.F, t, x)
	}
	obj := ""
	switch p := v.(type) {
	case Sc:
		obj = p.T
	case LocV:
		// address of a struct inside something
		stt, ok := p.Typ.Underlying().(*types.Struct)
		if !ok {
			sfail("selection through interior pointer to non-struct")
		}
		for i := 0; i < stt.NumFields(); i++ {
			if stt.Field(i).Name() == x.F {
				l := p
				l.Prefix = joinPath(p.Prefix, x.F)
				l.Typ = stt.Field(i).Type()
				return st.loadLoc(l, env.snap()), l.Typ
			}
		}
		sfail("no field %s", x.F)
	default:
		sfail("field selection on %T", v)
	}
	stt, ok := el.Underlying().(*types.Struct)
	if ok {
		for i := 0; i < stt.NumFields(); i++ {
			if stt.Field(i).Name() == x.F {
				l := LocV{Obj: obj, Owner: ownerKey(el), Prefix: x.F, Typ: stt.Field(i).Type()}
				return st.loadLoc(l, env.snap()), l.Typ
			}
		}
		// promoted through embedded struct (one level)
		for i := 0; i < stt.NumFields(); i++ {
			f := stt.Field(i)
			if !f.Embedded() {
				continue
			}
			if is, ok := f.Type().Underlying().(*types.Struct); ok {
				for j := 0; j < is.NumFields(); j++ {
					if is.Field(j).Name() == x.F {
						l := LocV{Obj: obj, Owner: ownerKey(el), Prefix: joinPath(f.Name(), x.F), Typ: is.Field(j).Type()}
						return st.loadLoc(l, env.snap()), l.Typ
					}
				}
			}
		}
	}
	// ghost field
	if g, ok := vc.gfields[typeKey(el)+"."+x.F]; ok {
		s := ghostSort(g.GoTyp)
		name := "G_" + typeKey(el) + "__" + g.Field
		vc.arrSorts[name] = arrSort(SInt, s)
		a := st.arrayIn(env.snap(), name, arrSort(SInt, s))
		t := sSel(a, obj)
		gt := ghostType(g.GoTyp)
		if strings.HasPrefix(g.GoTyp, "ref[") {
			nt, err := vc.resolveNamed(g.GoTyp[4:len(g.GoTyp)-1], vc.pkgOf(g.Pkg))
			if err != nil {
				sfail("ghost field %s: %v", g.Field, err)
			}
			return Sc{t, s}, types.NewPointer(nt)
		}
		if _, isSet := gt.(*setType); isSet {
			return SetV{T: t, K: SInt}, gt
		}
		return Sc{t, s}, gt
	}
	sfail("no field or ghost field %s on %s", x.F, el)
	return nil, nil
}

func (env *SpecEnv) evalIndex(x *EIndex) (Val, types.Type) {
	st := env.st
	v, t := env.eval(x.X)
	switch c := v.(type) {
	case SliceV:
		idx := env.evalInt(x.I)
		el := t.Underlying().(*types.Slice).Elem()
		return st.loadLoc(st.sliceElemLoc(c, idx, el), env.snap()), el
	case SetV:
		k := env.evalInt(x.I)
		return boolv(sSel(c.T, k)), tBool
	case Sc:
		if m, ok := t.Underlying().(*types.Map); ok {
			k := env.evalInt(x.I)
			return st.mapGet(m, c.T, k, env.snap()), m.Elem()
		}
		if _, ok := t.(*seqType); ok {
			k := env.evalInt(x.I)
			return intv(sSel(c.T, k)), tInt
		}
		if _, ok := t.(*seqMapType); ok {
			k := env.evalInt(x.I)
			return Sc{sSel(c.T, k), arrSort(SInt, SInt)}, &seqType{}
		}
		if _, ok := t.(*setMapType); ok {
			k := env.evalInt(x.I)
			return SetV{T: sSel(c.T, k), K: SInt}, &setType{K: tInt}
		}
	}
	sfail("indexing unsupported value in %s (type %v)", x, t)
	return nil, nil
}

func scalarEq(a, b Val) (string, bool) {
	switch x := a.(type) {
	case Sc:
		switch y := b.(type) {
		case Sc:
			return sEq(x.T, y.T), true
		case IfaceV:
			if x.T == "0" {
				return sEq(y.Tag, "0"), true
			}
		case LocV:
			if y.Prefix == "" && !y.Elem {
				return sEq(x.T, y.Obj), true
			}
		case SliceV:
			if x.T == "0" {
				return sEq(y.Base, "0"), true
			}
		case FuncV:
			if x.T == "0" && y.Term != "" {
				return sEq(y.Term, "0"), true
			}
		}
	case IfaceV:
		switch y := b.(type) {
		case IfaceV:
			if x.Tag == "0" || y.Tag == "0" {
				return sEq(x.Tag, y.Tag), true // comparison with the nil interface
			}
			return sAnd(sEq(x.Tag, y.Tag), sEq(x.Pay, y.Pay)), true
		case Sc:
			if y.T == "0" {
				return sEq(x.Tag, "0"), true
			}
		}
	case SetV:
		if y, ok := b.(SetV); ok {
			return sEq(x.T, y.T), true
		}
	case LocV:
		if y, ok := b.(Sc); ok && x.Prefix == "" && !x.Elem {
			return sEq(x.Obj, y.T), true
		}
		if y, ok := b.(LocV); ok && x.Prefix == y.Prefix && x.Elem == y.Elem && x.Owner == y.Owner {
			if x.Elem {
				return sAnd(sEq(x.Obj, y.Obj), sEq(x.Idx, y.Idx)), true
			}
			return sEq(x.Obj, y.Obj), true
		}
	case SliceV:
		switch y := b.(type) {
		case Sc:
			if y.T == "0" {
				return sEq(x.Base, "0"), true
			}
		case SliceV:
			if (x.Base == "0" && x.Len == "0") || (y.Base == "0" && y.Len == "0") {
				return sEq(x.Base, y.Base), true // comparison with the nil slice
			}
			return sAnd(sEq(x.Base, y.Base), sEq(x.Off, y.Off), sEq(x.Len, y.Len)), true
		}
	case FuncV:
		if y, ok := b.(Sc); ok && y.T == "0" && x.Term != "" {
			return sEq(x.Term, "0"), true
		}
	case *StructV:
		if y, ok := b.(*StructV); ok && len(x.F) == len(y.F) {
			var cs []string
			for i := range x.F {
				c, ok := scalarEq(x.F[i], y.F[i])
				if !ok {
					return "", false
				}
				cs = append(cs, c)
			}
			return sAnd(cs...), true
		}
	}
	return "", false
}

func (env *SpecEnv) evalBin(x *EBin) (Val, types.Type) {
	switch x.Op {
	case "&&":
		l := env.evalBool(x.L)
		if l == "false" {
			return boolv("false"), tBool
		}
		return boolv(sAnd(l, env.evalBool(x.R))), tBool
	case "||":
		return boolv(sOr(env.evalBool(x.L), env.evalBool(x.R))), tBool
	case "==>":
		l := env.evalBool(x.L)
		if l == "false" {
			return boolv("true"), tBool // lazily: the consequent may mention names that are not defined here
		}
		return boolv(sImp(l, env.evalBool(x.R))), tBool
	case "==", "!=":
		a, _ := env.eval(x.L)
		b, _ := env.eval(x.R)
		eq, ok := scalarEq(a, b)
		if !ok {
			sfail("cannot compare %T and %T in %s", a, b, x)
		}
		if x.Op == "!=" {
			return boolv(sNot(eq)), tBool
		}
		return boolv(eq), tBool
	case "<", "<=", ">", ">=":
		return boolv("(" + x.Op + " " + env.evalInt(x.L) + " " + env.evalInt(x.R) + ")"), tBool
	case "+", "-", "*":
		a, ta := env.eval(x.L)
		b, _ := env.eval(x.R)
		as, ok1 := a.(Sc)
		bs, ok2 := b.(Sc)
		if !ok1 || !ok2 {
			sfail("arithmetic on non-scalars in %s", x)
		}
		if as.S == SReal && bs.S == SInt {
			bs = Sc{"(to_real " + bs.T + ")", SReal}
		}
		if bs.S == SReal && as.S == SInt {
			as = Sc{"(to_real " + as.T + ")", SReal}
			ta = types.Typ[types.Float64]
		}
		return Sc{"(" + x.Op + " " + as.T + " " + bs.T + ")", as.S}, ta
	case "/":
		return intv(goDiv(env.evalInt(x.L), env.evalInt(x.R))), tInt
	case "%":
		return intv(goRem(env.evalInt(x.L), env.evalInt(x.R))), tInt
	case "in":
		k, _ := env.eval(x.L)
		c, ct := env.eval(x.R)
		switch cc := c.(type) {
		case SetV:
			return boolv(sSel(cc.T, asSc(k).T)), tBool
		case Sc:
			if m, ok := ct.Underlying().(*types.Map); ok {
				return boolv(env.st.mapHas(m, cc.T, asSc(k).T, env.snap())), tBool
			}
		case SliceV:
			el := ct.Underlying().(*types.Slice).Elem()
			env.st.vc.counter++
			i := fmt.Sprintf("i!%d", env.st.vc.counter)
			ev := env.st.loadLoc(env.st.sliceElemLoc(cc, i, el), env.snap())
			eq, ok := scalarEq(k, ev)
			if !ok {
				sfail("cannot compare slice element in %s", x)
			}
			return boolv(fmt.Sprintf("(exists ((%s Int)) (and (<= 0 %s) (< %s %s) %s))", i, i, i, cc.Len, eq)), tBool
		}
		sfail("'in' on unsupported container in %s", x)
	}
	sfail("unknown operator %s", x.Op)
	return nil, nil
}

// Go integer division truncates toward zero; SMT div is floor for positive divisors.
func goDiv(a, b string) string {
	return fmt.Sprintf("(ite (>= %s 0) (div %s %s) (- (div (- %s) %s)))", a, a, b, a, b)
}
func goRem(a, b string) string {
	return fmt.Sprintf("(- %s (* %s %s))", a, b, goDiv(a, b))
}

func firstTerm(v Val) string {
	switch x := v.(type) {
	case Sc:
		return x.T
	case IfaceV:
		return x.Tag
	case SliceV:
		return x.Len
	case *StructV:
		if len(x.F) > 0 {
			return firstTerm(x.F[0])
		}
	}
	return ""
}

func (env *SpecEnv) evalQuant(q *EQuant) (Val, types.Type) {
	st := env.st
	vc := st.vc
	kw := "forall"
	if !q.Forall {
		kw = "exists"
	}
	join := func(guard, body string) string {
		if q.Forall {
			return sImp(guard, body)
		}
		return sAnd(guard, body)
	}
	switch {
	case q.Lo != nil:
		lo := env.evalInt(q.Lo)
		hi := env.evalInt(q.Hi)
		vc.counter++
		v := fmt.Sprintf("%s!%d", q.Vars[0], vc.counter)
		e2 := env.withBound(q.Vars[0], nameEntry{V: intv(v), T: tInt})
		body := e2.evalBool(q.Body)
		return boolv(fmt.Sprintf("(%s ((%s Int)) %s)", kw, v, join(fmt.Sprintf("(and (<= %s %s) (< %s %s))", lo, v, v, hi), body))), tBool
	case q.Range != nil:
		c, ct := env.eval(q.Range)
		switch cc := c.(type) {
		case SliceV:
			el := ct.Underlying().(*types.Slice).Elem()
			vc.counter++
			i := fmt.Sprintf("i!%d", vc.counter)
			ev := st.loadLoc(st.sliceElemLoc(cc, i, el), env.snap())
			var e2 *SpecEnv
			if len(q.Vars) == 2 {
				e2 = env.withBound(q.Vars[0], nameEntry{V: intv(i), T: tInt}).withBound(q.Vars[1], nameEntry{V: ev, T: el})
			} else {
				e2 = env.withBound(q.Vars[0], nameEntry{V: ev, T: el})
			}
			body := e2.evalBool(q.Body)
			guard := fmt.Sprintf("(and (<= 0 %s) (< %s %s))", i, i, cc.Len)
			// one alternative trigger per leaf of the element (an interface element has a tag and a payload select, ...)
			var pats []string
			for n, t := range vc.flatten(ev, el) {
				if n < 4 && strings.Contains(t, i) && strings.HasPrefix(t, "(select ") {
					pats = append(pats, ":pattern ("+t+")")
				}
			}
			if len(pats) > 0 {
				return boolv(fmt.Sprintf("(%s ((%s Int)) (! %s %s))", kw, i, join(guard, body), strings.Join(pats, " "))), tBool
			}
			return boolv(fmt.Sprintf("(%s ((%s Int)) %s)", kw, i, join(guard, body))), tBool
		case Sc:
			m, ok := ct.Underlying().(*types.Map)
			if !ok {
				sfail("quantifier range must be a map, slice or set: %s", q.Range)
			}
			ks := vc.leaves(m.Key())[0].Sort
			vc.counter++
			k := fmt.Sprintf("%s!%d", q.Vars[0], vc.counter)
			e2 := env.withBound(q.Vars[0], nameEntry{V: Sc{k, ks}, T: m.Key()})
			if len(q.Vars) == 2 {
				e2 = e2.withBound(q.Vars[1], nameEntry{V: st.mapGetRaw(m, cc.T, k, env.snap()), T: m.Elem()})
			}
			body := e2.evalBool(q.Body)
			guard := st.mapHas(m, cc.T, k, env.snap())
			return boolv(fmt.Sprintf("(%s ((%s %s)) (! %s :pattern (%s)))", kw, k, ks, join(guard, body), guard)), tBool
		case SetV:
			vc.counter++
			k := fmt.Sprintf("%s!%d", q.Vars[0], vc.counter)
			kt := types.Type(tInt)
			if s, ok := ct.(*setType); ok {
				kt = s.K
			}
			e2 := env.withBound(q.Vars[0], nameEntry{V: Sc{k, cc.K}, T: kt})
			body := e2.evalBool(q.Body)
			guard := sSel(cc.T, k)
			return boolv(fmt.Sprintf("(%s ((%s %s)) (! %s :pattern (%s)))", kw, k, cc.K, join(guard, body), guard)), tBool
		}
		sfail("unsupported quantifier range %s", q.Range)
	default:
		// typed, unbounded
		var t types.Type
		var sort Sort = SInt
		switch q.Type {
		case "int", "uint64", "ref":
			t = tInt
		case "string":
			t = tString
		default:
			if strings.HasPrefix(q.Type, "mapof:") {
				full, err := vc.qualify(strings.TrimPrefix(q.Type, "mapof:"), env.pkg, 2)
				if err != nil {
					sfail("quantifier type: %v", err)
				}
				ft := vc.fieldType(full)
				if ft == nil {
					sfail("quantifier type: field %s not found", full)
				}
				t = ft
				break
			}
			isPtr := strings.HasPrefix(q.Type, "*")
			nt, err := vc.resolveNamed(strings.TrimPrefix(q.Type, "*"), env.pkg)
			if err != nil {
				sfail("quantifier type: %v", err)
			}
			t = nt
			if isPtr {
				t = types.NewPointer(nt)
			}
		}
		e2 := env
		var binds []string
		var bvars []string
		for _, vn := range q.Vars {
			vc.counter++
			v := fmt.Sprintf("%s!%d", vn, vc.counter)
			bvars = append(bvars, v)
			binds = append(binds, fmt.Sprintf("(%s %s)", v, sort))
			e2 = e2.withBound(vn, nameEntry{V: Sc{v, sort}, T: t})
		}
		body := e2.evalBool(q.Body)
		if len(bvars) == 1 {
			if pat := findSelectPattern(body, bvars[0]); pat != "" {
				return boolv(fmt.Sprintf("(%s (%s) (! %s :pattern (%s)))", kw, strings.Join(binds, " "), body, pat)), tBool
			}
		}
		return boolv(fmt.Sprintf("(%s (%s) %s)", kw, strings.Join(binds, " "), body)), tBool
	}
	return nil, nil
}

func (env *SpecEnv) evalCall(c *ECall) (Val, types.Type) {
	st := env.st
	vc := st.vc
	switch c.Fn {
	case "len":
		v, t := env.eval(c.Args[0])
		switch x := v.(type) {
		case SliceV:
			return intv(x.Len), tInt
		case Sc:
			if m, ok := t.Underlying().(*types.Map); ok {
				return intv(st.mapLen(m, x.T, env.snap())), tInt
			}
		case SetV:
			return intv(st.card(x.T, x.K)), tInt
		}
		sfail("len of unsupported value")
	case "sumover":
		// sumover(S, x, e): the sum of the integer expression e(x) over the finite set S (a set value or the key set of a
		// map). Encoded by one uninterpreted function per (e, heap versions e reads) with the two defining axioms
		//   sum(empty) = 0      and      x not in V  ==>  sum(V + {x}) = sum(V) + e(x)
		// assumed where the term is used; equal sets give equal sums by array extensionality.
		if len(c.Args) != 3 {
			sfail("sumover(set, var, expr)")
		}
		id, ok := c.Args[1].(*EIdent)
		if !ok {
			sfail("sumover: second argument must be a variable name")
		}
		sv, stp := env.eval(c.Args[0])
		var setTerm string
		var kt types.Type = tInt
		switch x := sv.(type) {
		case SetV:
			if x.K != SInt {
				sfail("sumover: only sets of integers / references / strings")
			}
			setTerm = x.T
			if s2, ok := stp.(*setType); ok {
				kt = s2.K
			}
		case Sc:
			m, ok := stp.Underlying().(*types.Map)
			if !ok {
				sfail("sumover: first argument must be a set or a map")
			}
			if vc.leaves(m.Key())[0].Sort != SInt {
				sfail("sumover: unsupported key sort")
			}
			setTerm = st.mapDom(m, x.T, env.snap())
			kt = m.Key()
		default:
			sfail("sumover: first argument must be a set or a map")
		}
		vc.counter++
		xv := fmt.Sprintf("%s!%d", id.Name, vc.counter)
		e2 := env.withBound(id.Name, nameEntry{V: Sc{xv, SInt}, T: kt})
		body := e2.evalInt(c.Args[2])
		canon := strings.ReplaceAll(body, xv, "?x")
		if vc.sumFns == nil {
			vc.sumFns = map[string]string{}
		}
		name, ok := vc.sumFns[canon]
		if !ok {
			name = fmt.Sprintf("sum%d", len(vc.sumFns)+1)
			vc.sumFns[canon] = name
			vc.ufs[name] = &UFDecl{Name: name, Params: []string{"set[int]"}, Result: "int"}
		}
		f := "uf_" + name
		if !st.known["sumax:"+name] {
			st.known["sumax:"+name] = true
			vc.counter++
			V := fmt.Sprintf("V!%d", vc.counter)
			y := fmt.Sprintf("y!%d", vc.counter)
			by := strings.ReplaceAll(canon, "?x", y)
			st.assume(fmt.Sprintf("(= (%s ((as const (Array Int Bool)) false)) 0)", f))
			st.assume(fmt.Sprintf("(forall ((%s (Array Int Bool)) (%s Int)) (! (=> (not (select %s %s)) (= (%s (store %s %s true)) (+ (%s %s) %s))) :pattern ((%s (store %s %s true)))))",
				V, y, V, y, f, V, y, f, V, by, f, V, y))
		}
		return intv(fmt.Sprintf("(%s %s)", f, setTerm)), tInt
	case "keys":
		v, t := env.eval(c.Args[0])
		m, ok := t.Underlying().(*types.Map)
		if !ok {
			sfail("keys() needs a map")
		}
		return SetV{T: st.mapDom(m, asSc(v).T, env.snap()), K: vc.leaves(m.Key())[0].Sort}, &setType{K: m.Key()}
	case "whentype":
		// whentype(x, "go type", e): e if the statically known dynamic type of interface value x is the given type, else true
		xv, _ := env.eval(c.Args[0])
		iv, ok := xv.(IfaceV)
		ts, ok2 := c.Args[1].(*EStr)
		if !ok || !ok2 {
			sfail("whentype(iface, \"type\", expr)")
		}
		if iv.Dyn == nil || iv.Dyn.String() != ts.V {
			return boolv("true"), tBool
		}
		return env.eval(c.Args[2])
	case "pointee":
		// pointee(x): the value the pointer boxed in interface value x points to (static dynamic type needed)
		xv, _ := env.eval(c.Args[0])
		iv, ok := xv.(IfaceV)
		if !ok || iv.Dyn == nil {
			sfail("pointee(): dynamic type of the interface value is not statically known")
		}
		pt, ok := iv.Dyn.Underlying().(*types.Pointer)
		if !ok {
			sfail("pointee(): dynamic type %s is not a pointer", iv.Dyn)
		}
		return st.loadLoc(LocV{Obj: iv.Pay, Owner: ownerKey(pt.Elem()), Typ: pt.Elem()}, env.snap()), pt.Elem()
	case "baseof":
		// baseof(slice): the identity of the slice's backing array (used as the identity of a byte string)
		sv, _ := env.eval(c.Args[0])
		sl, ok := sv.(SliceV)
		if !ok {
			sfail("baseof() needs a slice")
		}
		return intv(sl.Base), tInt
	case "addr":
		// addr(x): the address of an address-taken local variable x
		id, ok := c.Args[0].(*EIdent)
		if !ok || env.lookup == nil {
			sfail("addr() needs a local variable name")
		}
		ne, ok := env.lookup(id.Name)
		if !ok || !ne.IsAddr {
			sfail("addr(%s): not an address-taken local", id.Name)
		}
		return ne.V, ne.T
	case "defined":
		// defined(x): is the local name x bound on this path? (statically decided)
		id, ok := c.Args[0].(*EIdent)
		if !ok {
			sfail("defined() needs a name")
		}
		if _, ok := env.bound[id.Name]; ok {
			return boolv("true"), tBool
		}
		if env.lookup != nil {
			if _, ok := env.lookup(id.Name); ok {
				return boolv("true"), tBool
			}
		}
		return boolv("false"), tBool
	case "samemap":
		// samemap(m): the map m has the same keys and values as in the old state
		mv, t := env.eval(c.Args[0])
		m, ok := t.Underlying().(*types.Map)
		if !ok {
			sfail("samemap() needs a map")
		}
		ref := asSc(mv).T
		dn, ds := vc.mapDomArr(m)
		cs := []string{sEq(sSel(st.arrayIn(env.snap(), dn, ds), ref), sSel(st.arrayIn(env.old, dn, ds), ref))}
		for _, l := range vc.leaves(m.Elem()) {
			vn, vs := vc.mapValArr(m, l)
			cs = append(cs, sEq(sSel(st.arrayIn(env.snap(), vn, vs), ref), sSel(st.arrayIn(env.old, vn, vs), ref)))
		}
		return boolv(sAnd(cs...)), tBool
	case "deref":
		v, t := env.eval(c.Args[0])
		el, ok := deref(t)
		if !ok {
			sfail("deref of non-pointer")
		}
		return st.loadLoc(st.ptrToLoc(v, el), env.snap()), el
	case "fresh":
		// allocated after the old state
		v, _ := env.eval(c.Args[0])
		if sl, ok := v.(SliceV); ok {
			return boolv(fmt.Sprintf("(>= %s %s)", sl.Base, env.oldAlloc)), tBool
		}
		return boolv(fmt.Sprintf("(>= %s %s)", asSc(v).T, env.oldAlloc)), tBool
	case "allocated":
		v, _ := env.eval(c.Args[0])
		if env.inOld {
			return boolv(fmt.Sprintf("(and (<= 0 %s) (< %s %s))", asSc(v).T, asSc(v).T, env.oldAlloc)), tBool
		}
		return boolv(fmt.Sprintf("(and (<= 0 %s) (< %s %s))", asSc(v).T, asSc(v).T, st.allocTerm())), tBool
	case "typeis":
		// typeis(ifaceExpr, "go type string")
		v, _ := env.eval(c.Args[0])
		iv, ok := v.(IfaceV)
		if !ok {
			sfail("typeis on non-interface")
		}
		s, ok := c.Args[1].(*EStr)
		if !ok {
			sfail("typeis needs a string type name")
		}
		id, ok := vc.typeIDs[s.V]
		if !ok {
			id = len(vc.typeIDs) + 1
			vc.typeIDs[s.V] = id
		}
		return boolv(sEq(iv.Tag, fmt.Sprint(id))), tBool
	case "payload":
		v, _ := env.eval(c.Args[0])
		iv, ok := v.(IfaceV)
		if !ok {
			sfail("payload on non-interface")
		}
		return intv(iv.Pay), tInt
	case "asptr":
		// asptr(ifaceExpr, TypeName): the payload as a pointer to the named type
		v, _ := env.eval(c.Args[0])
		iv, ok := v.(IfaceV)
		if !ok {
			sfail("asptr on non-interface")
		}
		id, ok := c.Args[1].(*EIdent)
		var tn string
		if ok {
			tn = id.Name
		} else if sel, ok := c.Args[1].(*ESel); ok {
			tn = sel.String()
		} else if str, ok := c.Args[1].(*EStr); ok {
			tn = str.V
		} else {
			sfail("asptr needs a type name")
		}
		nt, err := vc.resolveNamed(tn, env.pkg)
		if err != nil {
			sfail("asptr: %v", err)
		}
		return intv(iv.Pay), types.NewPointer(nt)
	case "isptr":
		// isptr(ifaceExpr, TypeName): dynamic type is *TypeName
		v, _ := env.eval(c.Args[0])
		iv, ok := v.(IfaceV)
		if !ok {
			sfail("isptr on non-interface")
		}
		var tn string
		if id, ok := c.Args[1].(*EIdent); ok {
			tn = id.Name
		} else if sel, ok := c.Args[1].(*ESel); ok {
			tn = sel.String()
		} else if str, ok := c.Args[1].(*EStr); ok {
			tn = str.V
		}
		nt, err := vc.resolveNamed(tn, env.pkg)
		if err != nil {
			sfail("isptr: %v", err)
		}
		return boolv(sEq(iv.Tag, vc.typeID(types.NewPointer(nt)))), tBool
	case "setadd":
		s, t := env.eval(c.Args[0])
		k := env.evalInt(c.Args[1])
		return SetV{T: sStore(asSet(s).T, k, "true"), K: asSet(s).K}, t
	case "setdel":
		s, t := env.eval(c.Args[0])
		k := env.evalInt(c.Args[1])
		return SetV{T: sStore(asSet(s).T, k, "false"), K: asSet(s).K}, t
	case "emptyset":
		return SetV{T: "((as const (Array Int Bool)) false)", K: SInt}, &setType{K: tInt}
	case "seqset":
		s, t := env.eval(c.Args[0])
		k := env.evalInt(c.Args[1])
		vv, _ := env.eval(c.Args[2])
		if sv, ok := vv.(SetV); ok {
			return Sc{sStore(asSc(s).T, k, sv.T), asSc(s).S}, t
		}
		return Sc{sStore(asSc(s).T, k, asSc(vv).T), asSc(s).S}, t
	case "toreal":
		return Sc{"(to_real " + env.evalInt(c.Args[0]) + ")", SReal}, types.Typ[types.Float64]
	case "toint":
		return intv("(to_int " + env.evalInt(c.Args[0]) + ")"), tInt
	}
	if p, ok := vc.preds[c.Fn]; ok {
		if len(p.Params) != len(c.Args) {
			sfail("pred %s: %d args, want %d", c.Fn, len(c.Args), len(p.Params))
		}
		if env.depth > 20 {
			sfail("pred recursion too deep in %s", c.Fn)
		}
		n := *env
		n.depth++
		n.bound = map[string]nameEntry{}
		for k, v := range env.bound {
			n.bound[k] = v
		}
		// predicates see only their parameters plus the enclosing lookup for receivers (c) by name
		for i, a := range c.Args {
			v, t := env.eval(a)
			n.bound[p.Params[i]] = nameEntry{V: v, T: t}
		}
		return (&n).eval(p.Body)
	}
	if u, ok := vc.ufs[c.Fn]; ok {
		if len(u.Params) != len(c.Args) {
			sfail("%s: %d arguments, declared with %d", c.Fn, len(c.Args), len(u.Params))
		}
		var args []string
		for _, a := range c.Args {
			v, _ := env.eval(a)
			switch x := v.(type) {
			case Sc:
				args = append(args, x.T)
			case SetV:
				args = append(args, x.T)
			default:
				args = append(args, firstTerm(v))
			}
		}
		rs := ghostSort(u.Result)
		t := "(" + "uf_" + u.Name + " " + strings.Join(args, " ") + ")"
		if len(args) == 0 {
			t = "uf_" + u.Name
		}
		return Sc{t, rs}, ghostType(u.Result)
	}
	sfail("unknown function %s in spec", c.Fn)
	return nil, nil
}

// splitConj splits a clause expression into conjuncts (through ==> and forall).
func splitConj(e Expr) []Expr {
	switch x := e.(type) {
	case *EBin:
		if x.Op == "&&" {
			return append(splitConj(x.L), splitConj(x.R)...)
		}
		if x.Op == "==>" {
			var out []Expr
			for _, r := range splitConj(x.R) {
				out = append(out, &EBin{Op: "==>", L: x.L, R: r})
			}
			return out
		}
	case *EQuant:
		if x.Forall {
			parts := splitConj(x.Body)
			if len(parts) > 1 {
				var out []Expr
				for _, b := range parts {
					q := *x
					q.Body = b
					out = append(out, &q)
				}
				return out
			}
		}
	}
	return []Expr{e}
}

func asSc(v Val) Sc {
	switch x := v.(type) {
	case Sc:
		return x
	case LocV:
		if x.Prefix == "" && !x.Elem {
			return intv(x.Obj)
		}
	}
	sfail("scalar value expected, got %T", v)
	return Sc{}
}

func asSet(v Val) SetV {
	if s, ok := v.(SetV); ok {
		return s
	}
	sfail("set value expected, got %T", v)
	return SetV{}
}

// findSelectPattern returns the first term "(select <symbol> v)" occurring in body (used as E-matching trigger).
func findSelectPattern(body, v string) string {
	needle := " " + v + ")"
	idx := 0
	for {
		i := strings.Index(body[idx:], needle)
		if i < 0 {
			return ""
		}
		i += idx
		// walk back to "(select "
		j := strings.LastIndex(body[:i], "(select ")
		if j >= 0 {
			arr := body[j+len("(select ") : i]
			if !strings.ContainsAny(arr, " ()") {
				return body[j : i+len(needle)]
			}
		}
		idx = i + 1
	}
}

// ---------- predicate expansion (so that clauses split into small obligations) ----------

var alphaCounter int

func substExpr(e Expr, sub map[string]Expr) Expr {
	switch x := e.(type) {
	case nil:
		return nil
	case *EIdent:
		if r, ok := sub[x.Name]; ok {
			return r
		}
		return x
	case *ENum, *EStr, *ENil, *EBool:
		return e
	case *EBin:
		return &EBin{Op: x.Op, L: substExpr(x.L, sub), R: substExpr(x.R, sub)}
	case *EUn:
		return &EUn{Op: x.Op, X: substExpr(x.X, sub)}
	case *ESel:
		return &ESel{X: substExpr(x.X, sub), F: x.F}
	case *EIndex:
		return &EIndex{X: substExpr(x.X, sub), I: substExpr(x.I, sub)}
	case *ESlice:
		return &ESlice{X: substExpr(x.X, sub), Lo: substExpr(x.Lo, sub), Hi: substExpr(x.Hi, sub)}
	case *ECall:
		n := &ECall{Fn: x.Fn}
		for _, a := range x.Args {
			n.Args = append(n.Args, substExpr(a, sub))
		}
		return n
	case *EOld:
		return &EOld{X: substExpr(x.X, sub)}
	case *EIte:
		return &EIte{C: substExpr(x.C, sub), A: substExpr(x.A, sub), B: substExpr(x.B, sub)}
	case *EQuant:
		// alpha-rename the bound variables to avoid capture
		n := *x
		inner := map[string]Expr{}
		for k, v := range sub {
			inner[k] = v
		}
		n.Vars = nil
		for _, v := range x.Vars {
			alphaCounter++
			nv := fmt.Sprintf("%s_%d", v, alphaCounter)
			n.Vars = append(n.Vars, nv)
			inner[v] = &EIdent{Name: nv}
		}
		n.Range = substExpr(x.Range, sub)
		n.Lo = substExpr(x.Lo, sub)
		n.Hi = substExpr(x.Hi, sub)
		n.Body = substExpr(x.Body, inner)
		return &n
	}
	return e
}

// expandPreds replaces applications of (non-recursive) predicates by their bodies.
func (vc *VC) expandPreds(e Expr, depth int) Expr {
	if depth > 12 {
		return e
	}
	switch x := e.(type) {
	case nil:
		return nil
	case *EBin:
		return &EBin{Op: x.Op, L: vc.expandPreds(x.L, depth), R: vc.expandPreds(x.R, depth)}
	case *EUn:
		return &EUn{Op: x.Op, X: vc.expandPreds(x.X, depth)}
	case *EOld:
		return &EOld{X: vc.expandPreds(x.X, depth)}
	case *EIte:
		return &EIte{C: vc.expandPreds(x.C, depth), A: vc.expandPreds(x.A, depth), B: vc.expandPreds(x.B, depth)}
	case *EQuant:
		n := *x
		n.Body = vc.expandPreds(x.Body, depth)
		return &n
	case *ECall:
		if p, ok := vc.preds[x.Fn]; ok && len(p.Params) == len(x.Args) {
			sub := map[string]Expr{}
			for i, a := range x.Args {
				sub[p.Params[i]] = vc.expandPreds(a, depth)
			}
			return vc.expandPreds(substExpr(p.Body, sub), depth+1)
		}
		return x
	}
	return e
}
