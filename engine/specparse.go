package main

// Contract language: lexer, AST and parser.
// See DESIGN.md section 4. Blocks are delimited by /*@ ... @*/ in the
// tag-guarded contract files in /repo and in /verif/trusted/*.spec.

import (
	"fmt"
	"strings"
	"unicode"
)

type tokKind int

const (
	tEOF tokKind = iota
	tIdent
	tNum
	tStr
	tOp
)

type stoken struct {
	kind tokKind
	s    string
	pos  int
	line int
	esc  bool // written $name: a Go identifier that happens to be a spec keyword (e.g. a local called "exists")
}

var clauseKeywords = map[string]bool{
	"contract": true, "requires": true, "ensures": true, "modifies": true, "loop": true,
	"ghost": true, "pred": true, "on": true, "axiom": true, "do": true, "assert": true,
	"atreturn": true, "atentry": true, "decl": true, "assume": true, "inline": true, "opaque": true,
	"effectfree": true, "terminates": true, "calls": true,
}

func lex(src string, file string) ([]stoken, error) {
	var toks []stoken
	i := 0
	line := 1
	for i < len(src) {
		c := src[i]
		if c == '\n' {
			line++
			i++
			continue
		}
		if c == ' ' || c == '\t' || c == '\r' {
			i++
			continue
		}
		if c == '/' && i+1 < len(src) && src[i+1] == '/' {
			for i < len(src) && src[i] != '\n' {
				i++
			}
			continue
		}
		if c == '#' {
			for i < len(src) && src[i] != '\n' {
				i++
			}
			continue
		}
		if c == '$' && i+1 < len(src) && (unicode.IsLetter(rune(src[i+1])) || src[i+1] == '_') {
			j := i + 1
			for j < len(src) && (unicode.IsLetter(rune(src[j])) || unicode.IsDigit(rune(src[j])) || src[j] == '_') {
				j++
			}
			toks = append(toks, stoken{tIdent, src[i+1 : j], i, line, true})
			i = j
			continue
		}
		if unicode.IsLetter(rune(c)) || c == '_' {
			j := i
			for j < len(src) && (unicode.IsLetter(rune(src[j])) || unicode.IsDigit(rune(src[j])) || src[j] == '_') {
				j++
			}
			toks = append(toks, stoken{tIdent, src[i:j], i, line, false})
			i = j
			continue
		}
		if unicode.IsDigit(rune(c)) {
			j := i
			for j < len(src) && (unicode.IsDigit(rune(src[j]))) {
				j++
			}
			toks = append(toks, stoken{tNum, src[i:j], i, line, false})
			i = j
			continue
		}
		if c == '"' {
			j := i + 1
			for j < len(src) && src[j] != '"' {
				if src[j] == '\\' {
					j++
				}
				j++
			}
			if j >= len(src) {
				return nil, fmt.Errorf("%s:%d: unterminated string", file, line)
			}
			toks = append(toks, stoken{tStr, src[i+1 : j], i, line, false})
			i = j + 1
			continue
		}
		// operators
		three := ""
		if i+3 <= len(src) {
			three = src[i : i+3]
		}
		two := ""
		if i+2 <= len(src) {
			two = src[i : i+2]
		}
		switch {
		case three == "==>" || three == "<==":
			toks = append(toks, stoken{tOp, three, i, line, false})
			i += 3
		case two == "==" || two == "!=" || two == "<=" || two == ">=" || two == "&&" || two == "||" || two == "::" || two == ".." || two == "=>" || two == ":=":
			toks = append(toks, stoken{tOp, two, i, line, false})
			i += 2
		default:
			if strings.ContainsRune("+-*/%<>!()[]{}.,:;=@|&", rune(c)) {
				toks = append(toks, stoken{tOp, string(c), i, line, false})
				i++
			} else {
				return nil, fmt.Errorf("%s:%d: unexpected character %q", file, line, c)
			}
		}
	}
	toks = append(toks, stoken{tEOF, "", len(src), line, false})
	return toks, nil
}

// ---------- AST ----------

type Expr interface{ String() string }

type (
	EIdent  struct{ Name string }
	ENum    struct{ V string }
	EStr    struct{ V string }
	ENil    struct{}
	EBool   struct{ V bool }
	EBin    struct {
		Op   string
		L, R Expr
	}
	EUn struct {
		Op string
		X  Expr
	}
	ESel struct {
		X Expr
		F string
	}
	EIndex struct{ X, I Expr }
	ESlice struct{ X, Lo, Hi Expr }
	ECall  struct {
		Fn   string
		Args []Expr
	}
	EOld   struct{ X Expr }
	EQuant struct {
		Forall bool
		Vars   []string
		// exactly one of: Range (map/slice), Lo/Hi, Type
		Range  Expr
		Lo, Hi Expr
		Type   string
		Body   Expr
	}
	EIte struct{ C, A, B Expr }
)

func (e *EIdent) String() string { return e.Name }
func (e *ENum) String() string   { return e.V }
func (e *EStr) String() string   { return fmt.Sprintf("%q", e.V) }
func (e *ENil) String() string   { return "nil" }
func (e *EBool) String() string  { return fmt.Sprint(e.V) }
func (e *EBin) String() string   { return "(" + e.L.String() + " " + e.Op + " " + e.R.String() + ")" }
func (e *EUn) String() string    { return e.Op + e.X.String() }
func (e *ESel) String() string   { return e.X.String() + "." + e.F }
func (e *EIndex) String() string { return e.X.String() + "[" + e.I.String() + "]" }
func (e *ESlice) String() string {
	lo, hi := "", ""
	if e.Lo != nil {
		lo = e.Lo.String()
	}
	if e.Hi != nil {
		hi = e.Hi.String()
	}
	return e.X.String() + "[" + lo + ":" + hi + "]"
}
func (e *ECall) String() string {
	var a []string
	for _, x := range e.Args {
		a = append(a, x.String())
	}
	return e.Fn + "(" + strings.Join(a, ", ") + ")"
}
func (e *EOld) String() string { return "old(" + e.X.String() + ")" }
func (e *EQuant) String() string {
	q := "exists"
	if e.Forall {
		q = "forall"
	}
	r := ""
	switch {
	case e.Range != nil:
		r = " in " + e.Range.String()
	case e.Lo != nil:
		r = " in " + e.Lo.String() + ".." + e.Hi.String()
	default:
		r = " : " + e.Type
	}
	return "(" + q + " " + strings.Join(e.Vars, ", ") + r + " :: " + e.Body.String() + ")"
}
func (e *EIte) String() string {
	return "ite(" + e.C.String() + ", " + e.A.String() + ", " + e.B.String() + ")"
}

// Clause is a tagged, named assertion.
type Clause struct {
	Tags  []string
	Name  string
	E     Expr
	Line  int
	File  string
	Owner string // contract / event name it belongs to
}

type LoopSpec struct {
	Invariants []*Clause
	Decreases  Expr
	Modifies   []*ModItem // optional extra frame info (unused for now)
}

type ModItem struct {
	// Kind: "field" (Type.f), "map" (mapof(Type.f) or map type string), "elems" (elems(Type.f)), "nothing", "ghost"
	Kind string
	Type string // qualified or unqualified struct type name
	Path string // field name
	At   []Expr // optional object-set restriction: objects (or map refs / slice values) allowed to change
	Line int
}

type GhostStmt struct {
	// assignment  Target = Value   (Target: sel expr on ghost field or ghost global)
	Target Expr
	Value  Expr
	// or assert/assume
	Assert *Clause
	Assume Expr
	Line   int
}

type Contract struct {
	Kind     string // "func", "interface", "field"
	Name     string // as written: Type.Method | func | pkg.Func | pkg.Type.Method
	Params   []string
	Requires []*Clause
	Ensures  []*Clause
	Modifies []*ModItem
	HasMod   bool
	Loops    map[int]*LoopSpec
	AtReturn []*GhostStmt
	AtEntry  []*GhostStmt
	Trusted  bool
	File     string
	Line     int
	Pkg      string // package path the contract file belongs to ("" for trusted spec files)
	EffectFree bool
	Calls      []string // parameters of function type that the (assumed) callee may invoke any number of times
	Terminates bool
}

type Pred struct {
	Name   string
	Params []string
	Body   Expr
	File   string
	Pkg    string
}

type GhostField struct {
	Type  string // struct type name (qualified or not)
	Field string
	GoTyp string // "int", "bool", "set[uint64]", "set[string]", "ref", "string"
	Pkg   string
}

type GhostGlobal struct {
	Name  string
	GoTyp string
}

type Event struct {
	Kind   string // insert | delete | call | store
	Target string // Type.field  or  pkg.Iface.Method / func name
	Vars   []string
	Stmts  []*GhostStmt
	File   string
	Pkg    string
	Line   int
	When   Expr
	In     string // optional: only inside this function (as top or inlined frame)
	After  bool // for call events: run after the call (results bound to result/result0..)
}

type UFDecl struct {
	Name   string
	Params []string // sort names: int bool string ref set[...]
	Result string
}

type SpecFile struct {
	Contracts []*Contract
	Preds     []*Pred
	GFields   []*GhostField
	GGlobals  []*GhostGlobal
	Events    []*Event
	Axioms    []*Clause
	UFs       []*UFDecl
	Opaque    []string
	EffectFree []string
}

// ---------- parser ----------

type parser struct {
	toks []stoken
	p    int
	file string
	pkg  string
}

func (p *parser) peek() stoken { return p.toks[p.p] }
func (p *parser) next() stoken { t := p.toks[p.p]; p.p++; return t }
func (p *parser) isOp(s string) bool {
	t := p.peek()
	return t.kind == tOp && t.s == s
}
func (p *parser) isKw(s string) bool {
	t := p.peek()
	return t.kind == tIdent && t.s == s && !t.esc
}
func (p *parser) errf(format string, a ...interface{}) error {
	return fmt.Errorf("%s:%d: %s", p.file, p.peek().line, fmt.Sprintf(format, a...))
}
func (p *parser) expectOp(s string) error {
	if !p.isOp(s) {
		return p.errf("expected %q, got %q", s, p.peek().s)
	}
	p.next()
	return nil
}
func (p *parser) ident() (string, error) {
	t := p.peek()
	if t.kind != tIdent {
		return "", p.errf("expected identifier, got %q", t.s)
	}
	p.next()
	return t.s, nil
}

// dotted name: a.b.c  (also accepts leading "(*T)" forms quoted as strings)
func (p *parser) dotted() (string, error) {
	if p.peek().kind == tStr {
		return p.next().s, nil
	}
	s, err := p.ident()
	if err != nil {
		return "", err
	}
	for p.isOp(".") || p.isOp("/") {
		if p.toks[p.p+1].kind != tIdent {
			break
		}
		op := p.next().s
		t, err := p.ident()
		if err != nil {
			return "", err
		}
		s += op + t
	}
	return s, nil
}

func parseSpec(src, file, pkg string) (*SpecFile, error) {
	toks, err := lex(src, file)
	if err != nil {
		return nil, err
	}
	p := &parser{toks: toks, file: file, pkg: pkg}
	sf := &SpecFile{}
	for p.peek().kind != tEOF {
		t := p.peek()
		if t.kind != tIdent {
			return nil, p.errf("expected declaration keyword, got %q", t.s)
		}
		switch t.s {
		case "contract":
			c, err := p.parseContract()
			if err != nil {
				return nil, err
			}
			sf.Contracts = append(sf.Contracts, c)
		case "pred":
			p.next()
			name, err := p.ident()
			if err != nil {
				return nil, err
			}
			params, err := p.paramList()
			if err != nil {
				return nil, err
			}
			if err := p.expectOp("="); err != nil {
				return nil, err
			}
			e, err := p.expr()
			if err != nil {
				return nil, err
			}
			sf.Preds = append(sf.Preds, &Pred{Name: name, Params: params, Body: e, File: file, Pkg: pkg})
		case "ghost":
			p.next()
			kw, err := p.ident()
			if err != nil {
				return nil, err
			}
			switch kw {
			case "field":
				name, err := p.dotted()
				if err != nil {
					return nil, err
				}
				typ, err := p.typeName()
				if err != nil {
					return nil, err
				}
				i := strings.LastIndex(name, ".")
				if i < 0 {
					return nil, p.errf("ghost field needs Type.field")
				}
				sf.GFields = append(sf.GFields, &GhostField{Type: name[:i], Field: name[i+1:], GoTyp: typ, Pkg: pkg})
			case "global":
				name, err := p.ident()
				if err != nil {
					return nil, err
				}
				typ, err := p.typeName()
				if err != nil {
					return nil, err
				}
				sf.GGlobals = append(sf.GGlobals, &GhostGlobal{Name: name, GoTyp: typ})
			default:
				return nil, p.errf("ghost field|global expected")
			}
		case "on":
			ev, err := p.parseEvent()
			if err != nil {
				return nil, err
			}
			sf.Events = append(sf.Events, ev)
		case "axiom":
			p.next()
			cl, err := p.clauseBody("axiom")
			if err != nil {
				return nil, err
			}
			sf.Axioms = append(sf.Axioms, cl)
		case "decl":
			// decl name(sort, sort) : sort
			p.next()
			name, err := p.ident()
			if err != nil {
				return nil, err
			}
			if err := p.expectOp("("); err != nil {
				return nil, err
			}
			var ps []string
			for !p.isOp(")") {
				s, err := p.typeName()
				if err != nil {
					return nil, err
				}
				ps = append(ps, s)
				if p.isOp(",") {
					p.next()
				}
			}
			p.next()
			if err := p.expectOp(":"); err != nil {
				return nil, err
			}
			r, err := p.typeName()
			if err != nil {
				return nil, err
			}
			sf.UFs = append(sf.UFs, &UFDecl{Name: name, Params: ps, Result: r})
		case "opaque":
			p.next()
			n, err := p.dotted()
			if err != nil {
				return nil, err
			}
			sf.Opaque = append(sf.Opaque, n)
		case "effectfree":
			p.next()
			n, err := p.dotted()
			if err != nil {
				return nil, err
			}
			sf.EffectFree = append(sf.EffectFree, n)
		default:
			return nil, p.errf("unexpected %q at top level", t.s)
		}
	}
	return sf, nil
}

func (p *parser) typeName() (string, error) {
	// int | bool | string | ref | set[T]
	s, err := p.ident()
	if err != nil {
		return "", err
	}
	if p.isOp("[") {
		p.next()
		in, err := p.dotted()
		if err != nil {
			return "", err
		}
		if err := p.expectOp("]"); err != nil {
			return "", err
		}
		s += "[" + in + "]"
	}
	return s, nil
}

func (p *parser) paramList() ([]string, error) {
	var ps []string
	if err := p.expectOp("("); err != nil {
		return nil, err
	}
	for !p.isOp(")") {
		s, err := p.ident()
		if err != nil {
			return nil, err
		}
		ps = append(ps, s)
		if p.isOp(",") {
			p.next()
		}
	}
	p.next()
	return ps, nil
}

func (p *parser) tags() []string {
	var tags []string
	if p.isOp("[") {
		// distinguish tags "[C01,C02]" from an expression starting with "[" (never happens)
		p.next()
		for !p.isOp("]") {
			t := p.next()
			if t.kind == tIdent {
				tags = append(tags, t.s)
			}
		}
		p.next()
	}
	return tags
}

// clauseBody parses  [tags] [@name] expr
func (p *parser) clauseBody(owner string) (*Clause, error) {
	line := p.peek().line
	tags := p.tags()
	name := ""
	if p.isOp("@") {
		p.next()
		n, err := p.ident()
		if err != nil {
			return nil, err
		}
		name = n
	}
	e, err := p.expr()
	if err != nil {
		return nil, err
	}
	return &Clause{Tags: tags, Name: name, E: e, Line: line, File: p.file, Owner: owner}, nil
}

func (p *parser) parseContract() (*Contract, error) {
	line := p.peek().line
	p.next() // contract
	c := &Contract{Kind: "func", Loops: map[int]*LoopSpec{}, File: p.file, Line: line, Pkg: p.pkg}
	if p.isKw("interface") {
		p.next()
		c.Kind = "interface"
	} else if p.isKw("field") {
		p.next()
		c.Kind = "field"
	} else if p.isKw("trusted") {
		p.next()
		c.Trusted = true
	}
	name, err := p.dotted()
	if err != nil {
		return nil, err
	}
	c.Name = name
	if p.isOp("(") {
		ps, err := p.paramList()
		if err != nil {
			return nil, err
		}
		c.Params = ps
	}
	for {
		t := p.peek()
		if t.kind != tIdent {
			break
		}
		switch t.s {
		case "requires":
			p.next()
			cl, err := p.clauseBody(c.Name)
			if err != nil {
				return nil, err
			}
			if cl.Name == "" {
				cl.Name = fmt.Sprintf("requires%d", len(c.Requires)+1)
			}
			c.Requires = append(c.Requires, cl)
		case "ensures":
			p.next()
			// possible cases form
			line := p.peek().line
			tags := p.tags()
			name := ""
			if p.isOp("@") {
				p.next()
				n, err := p.ident()
				if err != nil {
					return nil, err
				}
				name = n
			}
			if name == "" {
				name = fmt.Sprintf("ensures%d", len(c.Ensures)+1)
			}
			if p.isKw("cases") {
				p.next()
				if err := p.expectOp("{"); err != nil {
					return nil, err
				}
				for !p.isOp("}") {
					lbl, err := p.ident()
					if err != nil {
						return nil, err
					}
					if err := p.expectOp(":"); err != nil {
						return nil, err
					}
					g, err := p.expr()
					if err != nil {
						return nil, err
					}
					if err := p.expectOp("=>"); err != nil {
						return nil, err
					}
					b, err := p.expr()
					if err != nil {
						return nil, err
					}
					c.Ensures = append(c.Ensures, &Clause{Tags: tags, Name: name + "/" + lbl, E: &EBin{Op: "==>", L: g, R: b}, Line: line, File: p.file, Owner: c.Name})
					if p.isOp(";") {
						p.next()
					}
				}
				p.next()
			} else {
				e, err := p.expr()
				if err != nil {
					return nil, err
				}
				c.Ensures = append(c.Ensures, &Clause{Tags: tags, Name: name, E: e, Line: line, File: p.file, Owner: c.Name})
			}
		case "modifies":
			p.next()
			c.HasMod = true
			for {
				mi, err := p.modItem()
				if err != nil {
					return nil, err
				}
				if mi.Kind != "nothing" {
					c.Modifies = append(c.Modifies, mi)
				}
				if p.isOp(",") {
					p.next()
					continue
				}
				break
			}
		case "loop":
			p.next()
			n := p.next()
			if n.kind != tNum {
				return nil, p.errf("loop ordinal expected")
			}
			k := 0
			fmt.Sscan(n.s, &k)
			ls := c.Loops[k]
			if ls == nil {
				ls = &LoopSpec{}
				c.Loops[k] = ls
			}
			kw, err := p.ident()
			if err != nil {
				return nil, err
			}
			switch kw {
			case "invariant":
				cl, err := p.clauseBody(c.Name)
				if err != nil {
					return nil, err
				}
				if cl.Name == "" {
					cl.Name = fmt.Sprintf("inv%d", len(ls.Invariants)+1)
				}
				cl.Name = fmt.Sprintf("loop%d/%s", k, cl.Name)
				ls.Invariants = append(ls.Invariants, cl)
			case "decreases":
				e, err := p.expr()
				if err != nil {
					return nil, err
				}
				ls.Decreases = e
			default:
				return nil, p.errf("loop invariant|decreases expected")
			}
		case "atreturn", "atentry":
			p.next()
			st, err := p.ghostStmts(c.Name)
			if err != nil {
				return nil, err
			}
			if t.s == "atreturn" {
				c.AtReturn = append(c.AtReturn, st...)
			} else {
				c.AtEntry = append(c.AtEntry, st...)
			}
		case "effectfree":
			p.next()
			c.EffectFree = true
		case "calls":
			// calls f, g: the callee may invoke these function-valued parameters any number of times
			p.next()
			for {
				n, err := p.ident()
				if err != nil {
					return nil, err
				}
				c.Calls = append(c.Calls, n)
				if p.isOp(",") {
					p.next()
					continue
				}
				break
			}
		case "terminates":
			p.next()
			c.Terminates = true
		default:
			return c, nil
		}
	}
	return c, nil
}

func (p *parser) modItem() (*ModItem, error) {
	line := p.peek().line
	if p.isKw("nothing") {
		p.next()
		return &ModItem{Kind: "nothing", Line: line}, nil
	}
	kind := "field"
	var name string
	var err error
	if p.isKw("elemsof") || p.isKw("pointee") {
		kind := p.next().s
		if err := p.expectOp("("); err != nil {
			return nil, err
		}
		n, err := p.ident()
		if err != nil {
			return nil, err
		}
		if err := p.expectOp(")"); err != nil {
			return nil, err
		}
		return &ModItem{Kind: kind, Path: n, Line: line}, nil
	}
	if p.isKw("mapof") || p.isKw("elems") {
		kind = "map"
		if p.peek().s == "elems" {
			kind = "elems"
		}
		p.next()
		if err := p.expectOp("("); err != nil {
			return nil, err
		}
		name, err = p.dotted()
		if err != nil {
			return nil, err
		}
		if err := p.expectOp(")"); err != nil {
			return nil, err
		}
	} else {
		name, err = p.dotted()
		if err != nil {
			return nil, err
		}
	}
	if p.isOp(".") && p.toks[p.p+1].kind == tOp && p.toks[p.p+1].s == "*" {
		p.next()
		p.next()
		name += ".*"
	}
	// nested field path inside a by-value struct field:  T.f:g:h
	sub := ""
	for p.isOp(":") && p.toks[p.p+1].kind == tIdent && !clauseKeywords[p.toks[p.p+1].s] {
		p.next()
		sub += "." + p.next().s
	}
	i := strings.LastIndex(name, ".")
	var mi *ModItem
	if i < 0 {
		mi = &ModItem{Kind: "gglobal", Path: name, Line: line}
	} else {
		mi = &ModItem{Kind: kind, Type: name[:i], Path: name[i+1:] + sub, Line: line}
	}
	if p.isKw("at") {
		p.next()
		if err := p.expectOp("{"); err != nil {
			return nil, err
		}
		for !p.isOp("}") {
			e, err := p.expr()
			if err != nil {
				return nil, err
			}
			mi.At = append(mi.At, e)
			if p.isOp(",") {
				p.next()
			}
		}
		p.next()
		if mi.At == nil {
			mi.At = []Expr{}
		}
	}
	return mi, nil
}

// ghostStmts:  do <target> = <expr>   |  assert[tags] @name <expr>  | assume <expr>   (one or more)
func (p *parser) ghostStmts(owner string) ([]*GhostStmt, error) {
	var out []*GhostStmt
	for {
		if p.isKw("do") {
			line := p.peek().line
			p.next()
			tgt, err := p.postfix()
			if err != nil {
				return nil, err
			}
			if err := p.expectOp("="); err != nil {
				return nil, err
			}
			v, err := p.expr()
			if err != nil {
				return nil, err
			}
			out = append(out, &GhostStmt{Target: tgt, Value: v, Line: line})
		} else if p.isKw("assert") {
			line := p.peek().line
			p.next()
			cl, err := p.clauseBody(owner)
			if err != nil {
				return nil, err
			}
			if cl.Name == "" {
				cl.Name = fmt.Sprintf("assert@%d", line)
			}
			out = append(out, &GhostStmt{Assert: cl, Line: line})
		} else if p.isKw("assume") {
			line := p.peek().line
			p.next()
			e, err := p.expr()
			if err != nil {
				return nil, err
			}
			out = append(out, &GhostStmt{Assume: e, Line: line})
		} else {
			break
		}
	}
	if len(out) == 0 {
		return nil, p.errf("expected do/assert")
	}
	return out, nil
}

func (p *parser) parseEvent() (*Event, error) {
	line := p.peek().line
	p.next() // on
	kind, err := p.ident()
	if err != nil {
		return nil, err
	}
	ev := &Event{Kind: kind, File: p.file, Pkg: p.pkg, Line: line}
	if kind == "return" || kind == "after" {
		ev.After = true
		if kind == "after" {
			ev.Kind = "call"
		}
	}
	tgt, err := p.dotted()
	if err != nil {
		return nil, err
	}
	ev.Target = tgt
	vars, err := p.paramList()
	if err != nil {
		return nil, err
	}
	ev.Vars = vars
	if p.isKw("in") {
		p.next()
		fn, err := p.dotted()
		if err != nil {
			return nil, err
		}
		ev.In = fn
	}
	if p.isKw("when") {
		p.next()
		e, err := p.expr()
		if err != nil {
			return nil, err
		}
		ev.When = e
	}
	st, err := p.ghostStmts("on " + kind + " " + tgt)
	if err != nil {
		return nil, err
	}
	ev.Stmts = st
	return ev, nil
}

// ----- expressions -----

func (p *parser) expr() (Expr, error) {
	if p.isKw("forall") || p.isKw("exists") {
		return p.quant()
	}
	return p.implies()
}

func (p *parser) quant() (Expr, error) {
	q := &EQuant{Forall: p.next().s == "forall"}
	for {
		v, err := p.ident()
		if err != nil {
			return nil, err
		}
		q.Vars = append(q.Vars, v)
		if p.isOp(",") {
			p.next()
			continue
		}
		break
	}
	if p.isOp(":") {
		p.next()
		// type: [*]dotted
		ty := ""
		if p.isOp("*") {
			p.next()
			ty = "*"
		}
		if p.isKw("mapof") {
			p.next()
			if err := p.expectOp("("); err != nil {
				return nil, err
			}
			ty = "mapof:"
		}
		d, err := p.dotted()
		if err != nil {
			return nil, err
		}
		if ty == "mapof:" {
			if err := p.expectOp(")"); err != nil {
				return nil, err
			}
		}
		q.Type = ty + d
	} else {
		if !p.isKw("in") {
			return nil, p.errf("expected 'in' or ':' in quantifier")
		}
		p.next()
		lo, err := p.add()
		if err != nil {
			return nil, err
		}
		if p.isOp("..") {
			p.next()
			hi, err := p.add()
			if err != nil {
				return nil, err
			}
			q.Lo, q.Hi = lo, hi
		} else {
			q.Range = lo
		}
	}
	if err := p.expectOp("::"); err != nil {
		return nil, err
	}
	b, err := p.expr()
	if err != nil {
		return nil, err
	}
	q.Body = b
	return q, nil
}

func (p *parser) implies() (Expr, error) {
	l, err := p.or()
	if err != nil {
		return nil, err
	}
	if p.isOp("==>") {
		p.next()
		r, err := p.expr() // right assoc; allows quantifier on the right
		if err != nil {
			return nil, err
		}
		return &EBin{Op: "==>", L: l, R: r}, nil
	}
	if p.isOp("<==") {
		p.next()
		r, err := p.expr()
		if err != nil {
			return nil, err
		}
		return &EBin{Op: "==>", L: r, R: l}, nil
	}
	return l, nil
}

func (p *parser) or() (Expr, error) {
	l, err := p.and()
	if err != nil {
		return nil, err
	}
	for p.isOp("||") {
		p.next()
		r, err := p.and()
		if err != nil {
			return nil, err
		}
		l = &EBin{Op: "||", L: l, R: r}
	}
	return l, nil
}

func (p *parser) and() (Expr, error) {
	l, err := p.cmp()
	if err != nil {
		return nil, err
	}
	for p.isOp("&&") {
		p.next()
		var r Expr
		if p.isKw("forall") || p.isKw("exists") {
			r, err = p.quant()
		} else {
			r, err = p.cmp()
		}
		if err != nil {
			return nil, err
		}
		l = &EBin{Op: "&&", L: l, R: r}
	}
	return l, nil
}

func (p *parser) cmp() (Expr, error) {
	l, err := p.add()
	if err != nil {
		return nil, err
	}
	t := p.peek()
	if t.kind == tOp {
		switch t.s {
		case "==", "!=", "<", "<=", ">", ">=":
			p.next()
			r, err := p.add()
			if err != nil {
				return nil, err
			}
			return &EBin{Op: t.s, L: l, R: r}, nil
		}
	}
	if t.kind == tIdent && t.s == "in" {
		p.next()
		r, err := p.add()
		if err != nil {
			return nil, err
		}
		return &EBin{Op: "in", L: l, R: r}, nil
	}
	if t.kind == tOp && t.s == "!" && p.toks[p.p+1].kind == tIdent && p.toks[p.p+1].s == "in" {
		p.next()
		p.next()
		r, err := p.add()
		if err != nil {
			return nil, err
		}
		return &EUn{Op: "!", X: &EBin{Op: "in", L: l, R: r}}, nil
	}
	return l, nil
}

func (p *parser) add() (Expr, error) {
	l, err := p.mul()
	if err != nil {
		return nil, err
	}
	for p.isOp("+") || p.isOp("-") {
		op := p.next().s
		r, err := p.mul()
		if err != nil {
			return nil, err
		}
		l = &EBin{Op: op, L: l, R: r}
	}
	return l, nil
}

func (p *parser) mul() (Expr, error) {
	l, err := p.unary()
	if err != nil {
		return nil, err
	}
	for p.isOp("*") || p.isOp("/") || p.isOp("%") {
		op := p.next().s
		r, err := p.unary()
		if err != nil {
			return nil, err
		}
		l = &EBin{Op: op, L: l, R: r}
	}
	return l, nil
}

func (p *parser) unary() (Expr, error) {
	if p.isOp("!") {
		p.next()
		x, err := p.unary()
		if err != nil {
			return nil, err
		}
		return &EUn{Op: "!", X: x}, nil
	}
	if p.isOp("-") {
		p.next()
		x, err := p.unary()
		if err != nil {
			return nil, err
		}
		return &EUn{Op: "-", X: x}, nil
	}
	return p.postfix()
}

func (p *parser) postfix() (Expr, error) {
	x, err := p.primary()
	if err != nil {
		return nil, err
	}
	for {
		if p.isOp(".") {
			p.next()
			f, err := p.ident()
			if err != nil {
				return nil, err
			}
			x = &ESel{X: x, F: f}
		} else if p.isOp("[") {
			p.next()
			var lo Expr
			if !p.isOp(":") {
				lo, err = p.expr()
				if err != nil {
					return nil, err
				}
			}
			if p.isOp(":") {
				p.next()
				var hi Expr
				if !p.isOp("]") {
					hi, err = p.expr()
					if err != nil {
						return nil, err
					}
				}
				if err := p.expectOp("]"); err != nil {
					return nil, err
				}
				x = &ESlice{X: x, Lo: lo, Hi: hi}
			} else {
				if err := p.expectOp("]"); err != nil {
					return nil, err
				}
				x = &EIndex{X: x, I: lo}
			}
		} else {
			return x, nil
		}
	}
}

func (p *parser) primary() (Expr, error) {
	t := p.peek()
	switch t.kind {
	case tNum:
		p.next()
		return &ENum{V: t.s}, nil
	case tStr:
		p.next()
		return &EStr{V: t.s}, nil
	case tOp:
		if t.s == "(" {
			p.next()
			e, err := p.expr()
			if err != nil {
				return nil, err
			}
			if err := p.expectOp(")"); err != nil {
				return nil, err
			}
			return e, nil
		}
		return nil, p.errf("unexpected %q in expression", t.s)
	case tIdent:
		if t.esc {
			p.next()
			return &EIdent{Name: t.s}, nil
		}
		if clauseKeywords[t.s] {
			return nil, p.errf("unexpected keyword %q in expression", t.s)
		}
		p.next()
		switch t.s {
		case "nil":
			return &ENil{}, nil
		case "true":
			return &EBool{V: true}, nil
		case "false":
			return &EBool{V: false}, nil
		case "forall", "exists":
			p.p--
			return p.quant()
		case "old":
			if err := p.expectOp("("); err != nil {
				return nil, err
			}
			e, err := p.expr()
			if err != nil {
				return nil, err
			}
			if err := p.expectOp(")"); err != nil {
				return nil, err
			}
			return &EOld{X: e}, nil
		case "ite":
			if err := p.expectOp("("); err != nil {
				return nil, err
			}
			c, err := p.expr()
			if err != nil {
				return nil, err
			}
			if err := p.expectOp(","); err != nil {
				return nil, err
			}
			a, err := p.expr()
			if err != nil {
				return nil, err
			}
			if err := p.expectOp(","); err != nil {
				return nil, err
			}
			b, err := p.expr()
			if err != nil {
				return nil, err
			}
			if err := p.expectOp(")"); err != nil {
				return nil, err
			}
			return &EIte{C: c, A: a, B: b}, nil
		}
		if p.isOp("(") {
			p.next()
			var args []Expr
			for !p.isOp(")") {
				a, err := p.expr()
				if err != nil {
					return nil, err
				}
				args = append(args, a)
				if p.isOp(",") {
					p.next()
				}
			}
			p.next()
			return &ECall{Fn: t.s, Args: args}, nil
		}
		return &EIdent{Name: t.s}, nil
	}
	return nil, p.errf("unexpected end of input in expression")
}

// extractBlocks returns the concatenated text of all /*@ ... @*/ blocks in src.
func extractBlocks(src string) string {
	var b strings.Builder
	rest := src
	consumed := 0
	for {
		i := strings.Index(rest, "/*@")
		if i < 0 {
			break
		}
		j := strings.Index(rest[i:], "@*/")
		if j < 0 {
			break
		}
		// preserve line numbers: emit newlines for skipped text
		b.WriteString(strings.Repeat("\n", strings.Count(rest[:i+3], "\n")))
		b.WriteString(rest[i+3 : i+j])
		consumed += i + j + 3
		rest = rest[i+j+3:]
	}
	return b.String()
}
