package main

// Symbolic values, the Burstall–Bornat heap and SMT term helpers.

import (
	"fmt"
	"go/types"
	"hash/fnv"
	"sort"
	"strings"
)

type Sort string

const (
	SInt  Sort = "Int"
	SBool Sort = "Bool"
	SReal Sort = "Real"
)

func arrSort(idx, elem Sort) Sort { return Sort("(Array " + string(idx) + " " + string(elem) + ")") }

type Val interface{}

// Sc is a scalar SMT term: ints, bools, strings (as Int ids), floats (Real), pointers/maps/chans/funcs (Int refs).
type Sc struct {
	T string
	S Sort
}

// StructV is a struct held by value.
type StructV struct {
	T types.Type // the struct's Go type (named or not)
	F []Val
}

type SliceV struct{ Base, Off, Len string }
type IfaceV struct {
	Tag, Pay string
	Dyn      types.Type // static knowledge of the dynamic type (set by MakeInterface), nil when unknown
}
type TupleV struct{ V []Val }

// SetV is a spec-only value: a set of keys as an SMT array K->Bool.
type SetV struct {
	T string
	K Sort
}

// LocV is an address: a place holding a value of Go type Typ.
type LocV struct {
	Elem   bool
	Obj    string // object ref or backing-array ref
	Idx    string // element index when Elem
	Owner  string // canonical key of root struct/cell type or element type
	Prefix string // field path inside the root
	Typ    types.Type
	// provenance for owner resolution in events: the ssa object/field this location came from
}

// FuncV is a closure or static function value.
type FuncV struct {
	Fn   interface{} // *ssa.Function
	Free []Val
	Term string // opaque id when symbolic
	From string // "Type.field" provenance when loaded from a struct field
	Recv Val    // bound receiver for method values
	Owner string // object the function value was loaded from (for field contracts: self)
	OwnerT types.Type
}

type MapIterV struct {
	Map   string // map ref term
	KT    types.Type
	VT    types.Type
	D0    string // domain at range start
	Vis   string // logical name of visited-set state variable
	IsStr bool
	Str   string
}

func intv(t string) Sc  { return Sc{t, SInt} }
func boolv(t string) Sc { return Sc{t, SBool} }

// ---------- SMT helpers ----------

func sAnd(xs ...string) string {
	var ys []string
	for _, x := range xs {
		if x == "true" || x == "" {
			continue
		}
		if x == "false" {
			return "false"
		}
		ys = append(ys, x)
	}
	if len(ys) == 0 {
		return "true"
	}
	if len(ys) == 1 {
		return ys[0]
	}
	return "(and " + strings.Join(ys, " ") + ")"
}
func sOr(xs ...string) string {
	var ys []string
	for _, x := range xs {
		if x == "false" || x == "" {
			continue
		}
		if x == "true" {
			return "true"
		}
		ys = append(ys, x)
	}
	if len(ys) == 0 {
		return "false"
	}
	if len(ys) == 1 {
		return ys[0]
	}
	return "(or " + strings.Join(ys, " ") + ")"
}
func sNot(x string) string {
	if x == "true" {
		return "false"
	}
	if x == "false" {
		return "true"
	}
	if strings.HasPrefix(x, "(not ") && strings.HasSuffix(x, ")") && balanced(x[5:len(x)-1]) {
		return x[5 : len(x)-1]
	}
	return "(not " + x + ")"
}
func balanced(s string) bool {
	d := 0
	for i, c := range s {
		if c == '(' {
			d++
		} else if c == ')' {
			d--
			if d == 0 && i != len(s)-1 {
				return false
			}
			if d < 0 {
				return false
			}
		} else if d == 0 && c == ' ' {
			return false
		}
	}
	return d == 0
}
func sImp(a, b string) string {
	if a == "true" {
		return b
	}
	if a == "false" || b == "true" {
		return "true"
	}
	return "(=> " + a + " " + b + ")"
}
func sEq(a, b string) string {
	if a == b {
		return "true"
	}
	return "(= " + a + " " + b + ")"
}
func sIte(c, a, b string) string {
	if c == "true" {
		return a
	}
	if c == "false" {
		return b
	}
	if a == b {
		return a
	}
	return "(ite " + c + " " + a + " " + b + ")"
}
func sSel(a, i string) string      { return "(select " + a + " " + i + ")" }
func sStore(a, i, v string) string { return "(store " + a + " " + i + " " + v + ")" }
func sNum(n int64) string {
	if n < 0 {
		return fmt.Sprintf("(- %d)", -n)
	}
	return fmt.Sprintf("%d", n)
}

func sanitize(s string) string {
	var b strings.Builder
	for _, c := range s {
		switch {
		case c >= 'a' && c <= 'z', c >= 'A' && c <= 'Z', c >= '0' && c <= '9', c == '_':
			b.WriteRune(c)
		case c == '.':
			b.WriteString("_")
		case c == '/':
			b.WriteString("_")
		case c == '*':
			b.WriteString("P")
		case c == '[':
			b.WriteString("L")
		case c == ']':
			b.WriteString("J")
		default:
			b.WriteString("_")
		}
	}
	return b.String()
}

func shortHash(s string) string {
	h := fnv.New32a()
	h.Write([]byte(s))
	return fmt.Sprintf("%08x", h.Sum32())
}

// typeKey gives the canonical key of a Go type used in heap array names.
func typeKey(t types.Type) string {
	switch tt := t.(type) {
	case *types.Named:
		obj := tt.Obj()
		p := ""
		if obj.Pkg() != nil {
			p = obj.Pkg().Path()
			p = strings.TrimPrefix(p, "tkestack.io/kvass/pkg/")
			p = strings.TrimPrefix(p, "github.com/")
		}
		k := sanitize(p + "." + obj.Name())
		if tt.TypeArgs() != nil && tt.TypeArgs().Len() > 0 {
			k += "_" + shortHash(tt.String())
		}
		return k
	case *types.Alias:
		return typeKey(types.Unalias(tt))
	case *types.Basic:
		return tt.Name()
	case *types.Pointer:
		return "P" + typeKey(tt.Elem())
	case *types.Slice:
		return "S" + typeKey(tt.Elem())
	case *types.Map:
		return "M" + typeKey(tt.Key()) + "_" + typeKey(tt.Elem())
	case *types.Struct:
		return "anon" + shortHash(tt.String())
	case *types.Interface:
		if tt.Empty() {
			return "any"
		}
		return "iface" + shortHash(tt.String())
	case *types.Array:
		return fmt.Sprintf("A%d%s", tt.Len(), typeKey(tt.Elem()))
	case *types.Signature:
		return "func" + shortHash(tt.String())
	case *types.Chan:
		return "chan" + typeKey(tt.Elem())
	}
	return "T" + shortHash(t.String())
}

// ---------- leaves ----------

type leaf struct {
	Path string
	Typ  types.Type // Go type of the leaf (basic/pointer/map/...) ; for slice/iface components the parent type
	Sort Sort
	Comp string // "", "base","off","len","tag","pay"
}

func (vc *VC) isOpaque(t types.Type) (Sort, bool) {
	if n, ok := types.Unalias(t).(*types.Named); ok {
		if n.Obj().Pkg() != nil {
			full := n.Obj().Pkg().Path() + "." + n.Obj().Name()
			if vc.opaque[full] {
				return SInt, true
			}
		}
	}
	return "", false
}

func joinPath(a, b string) string {
	if a == "" {
		return b
	}
	if b == "" {
		return a
	}
	return a + "." + b
}

// leaves enumerates the scalar components of a value of type t.
func (vc *VC) leaves(t types.Type) []leaf {
	key := t.String()
	if l, ok := vc.leafCache[key]; ok {
		return l
	}
	var out []leaf
	if s, ok := vc.isOpaque(t); ok {
		out = []leaf{{"", t, s, ""}}
		vc.leafCache[key] = out
		return out
	}
	switch u := t.Underlying().(type) {
	case *types.Basic:
		switch {
		case u.Info()&types.IsBoolean != 0:
			out = []leaf{{"", t, SBool, ""}}
		case u.Info()&types.IsFloat != 0:
			out = []leaf{{"", t, SReal, ""}}
		default:
			out = []leaf{{"", t, SInt, ""}}
		}
	case *types.Pointer, *types.Map, *types.Chan, *types.Signature:
		out = []leaf{{"", t, SInt, ""}}
	case *types.Interface:
		out = []leaf{{"$tag", t, SInt, "tag"}, {"$pay", t, SInt, "pay"}}
	case *types.Slice:
		out = []leaf{{"$base", t, SInt, "base"}, {"$len", t, SInt, "len"}}
	case *types.Struct:
		for i := 0; i < u.NumFields(); i++ {
			f := u.Field(i)
			for _, l := range vc.leaves(f.Type()) {
				out = append(out, leaf{joinPath(f.Name(), l.Path), l.Typ, l.Sort, l.Comp})
			}
		}
	case *types.Array:
		// arrays held by value are not supported as leaves; treated as opaque Int
		out = []leaf{{"", t, SInt, ""}}
	case *types.Tuple:
		out = nil
	default:
		out = []leaf{{"", t, SInt, ""}}
	}
	vc.leafCache[key] = out
	return out
}

func zeroOf(s Sort) string {
	switch s {
	case SBool:
		return "false"
	case SReal:
		return "0.0"
	}
	return "0"
}

// flatten converts a Val of Go type t into leaf terms (aligned with leaves(t)).
func (vc *VC) flatten(v Val, t types.Type) []string {
	ls := vc.leaves(t)
	switch x := v.(type) {
	case Sc:
		if len(ls) == 1 {
			return []string{x.T}
		}
		if len(ls) == 2 && ls[0].Comp == "tag" {
			// nil interface given as scalar 0
			return []string{x.T, "0"}
		}
		if len(ls) == 2 && ls[0].Comp == "base" {
			return []string{x.T, "0"}
		}
		panic(fmt.Sprintf("flatten: scalar %v for type %s with %d leaves", x, t, len(ls)))
	case SliceV:
		if x.Off != "0" {
			panic(unsupported("slice with non-zero offset stored or passed"))
		}
		return []string{x.Base, x.Len}
	case IfaceV:
		return []string{x.Tag, x.Pay}
	case *StructV:
		st := t.Underlying().(*types.Struct)
		var out []string
		for i := 0; i < st.NumFields(); i++ {
			out = append(out, vc.flatten(x.F[i], st.Field(i).Type())...)
		}
		return out
	case LocV:
		if x.Prefix == "" && !x.Elem {
			return []string{x.Obj}
		}
		panic(unsupported("interior pointer stored as value: " + x.Owner + "." + x.Prefix))
	case FuncV:
		if x.Term != "" {
			return []string{x.Term}
		}
		return []string{vc.funcID(x)}
	}
	panic(fmt.Sprintf("flatten: unexpected value %T for %s", v, t))
}

// unflatten builds a Val of type t from leaf terms.
func (vc *VC) unflatten(terms []string, t types.Type) Val {
	v, rest := vc.unflat1(terms, t)
	if len(rest) != 0 {
		panic("unflatten: leftover terms")
	}
	return v
}

func (vc *VC) unflat1(terms []string, t types.Type) (Val, []string) {
	if s, ok := vc.isOpaque(t); ok {
		return Sc{terms[0], s}, terms[1:]
	}
	switch u := t.Underlying().(type) {
	case *types.Interface:
		return IfaceV{Tag: terms[0], Pay: terms[1]}, terms[2:]
	case *types.Slice:
		return SliceV{terms[0], "0", terms[1]}, terms[2:]
	case *types.Struct:
		sv := &StructV{T: t}
		for i := 0; i < u.NumFields(); i++ {
			var f Val
			f, terms = vc.unflat1(terms, u.Field(i).Type())
			sv.F = append(sv.F, f)
		}
		return sv, terms
	case *types.Signature:
		return FuncV{Term: terms[0]}, terms[1:]
	default:
		ls := vc.leaves(t)
		return Sc{terms[0], ls[0].Sort}, terms[1:]
	}
}

type unsupportedErr struct{ msg string }

func (u unsupportedErr) Error() string { return "unsupported: " + u.msg }
func unsupported(msg string) unsupportedErr {
	return unsupportedErr{msg}
}

// ---------- State ----------

type State struct {
	vc    *VC
	arr   map[string]string // logical array name -> current SMT symbol
	old   map[string]string // snapshot at function entry (top frame)
	decls []string
	asm   []string
	declared map[string]bool
	allocBase string
	allocOff  int
	trail []string // human-readable path description
	dead  bool
	written map[string]bool // logical arrays written since entry
	stopped bool
	views []string // backing refs that are read-only views
	known map[string]bool // safety goals already checked (and assumed) on this path
}

func (st *State) fork() *State {
	n := &State{vc: st.vc, allocBase: st.allocBase, allocOff: st.allocOff, old: st.old}
	n.arr = make(map[string]string, len(st.arr))
	for k, v := range st.arr {
		n.arr[k] = v
	}
	n.declared = make(map[string]bool, len(st.declared))
	for k, v := range st.declared {
		n.declared[k] = v
	}
	n.written = make(map[string]bool, len(st.written))
	for k, v := range st.written {
		n.written[k] = v
	}
	n.known = make(map[string]bool, len(st.known))
	for k, v := range st.known {
		n.known[k] = v
	}
	n.views = append([]string(nil), st.views...)
	n.decls = append([]string(nil), st.decls...)
	n.asm = append([]string(nil), st.asm...)
	n.trail = append([]string(nil), st.trail...)
	return n
}

func (st *State) declare(name string, sort Sort) {
	if st.declared[name] {
		return
	}
	st.declared[name] = true
	st.decls = append(st.decls, fmt.Sprintf("(declare-fun %s () %s)", name, sort))
}

func (st *State) fresh(prefix string, sort Sort) string {
	st.vc.counter++
	name := fmt.Sprintf("%s!%d", sanitize(prefix), st.vc.counter)
	st.declare(name, sort)
	return name
}

func (st *State) assume(t string) {
	if t == "true" || t == "" {
		return
	}
	st.asm = append(st.asm, t)
}

func (st *State) allocTerm() string {
	if st.allocOff == 0 {
		return st.allocBase
	}
	return fmt.Sprintf("(+ %s %d)", st.allocBase, st.allocOff)
}

func (st *State) newRef() string {
	r := st.allocTerm()
	st.allocOff++
	// ghost fields of a fresh reference have their default value whatever its type (references are untyped integers)
	st.vc.initGhostAll(st, r)
	return r
}

// snapshot of arrays for old()
func (st *State) snapshot() map[string]string {
	m := make(map[string]string, len(st.arr))
	for k, v := range st.arr {
		m[k] = v
	}
	return m
}

// array returns the current SMT symbol for a logical heap array, creating the
// initial version lazily.  in: which version map to use (st.arr or an old snapshot).
func (st *State) array(name string, sort Sort) string {
	if s, ok := st.arr[name]; ok {
		return s
	}
	st.vc.arrSorts[name] = sort
	sym := name + "!0"
	st.declare(sym, sort)
	st.arr[name] = sym
	st.wellTyped(name, sym, "alloc!0")
	return sym
}

// arrayIn reads the version of an array in a snapshot; arrays never touched before the
// snapshot was taken still have their initial version.
func (st *State) arrayIn(snap map[string]string, name string, sort Sort) string {
	if snap == nil {
		return st.array(name, sort)
	}
	if s, ok := snap[name]; ok {
		return s
	}
	// not touched at snapshot time: initial version; make sure it is declared
	if _, ok := st.arr[name]; !ok {
		return st.array(name, sort)
	}
	sym := name + "!0"
	st.declare(sym, sort)
	return sym
}

func (st *State) setArray(name string, sort Sort, term string) {
	// introduce a new named version to keep terms small
	st.vc.arrSorts[name] = sort
	st.vc.counter++
	sym := fmt.Sprintf("%s!%d", name, st.vc.counter)
	st.declare(sym, sort)
	st.asm = append(st.asm, sEq(sym, term))
	st.arr[name] = sym
	st.written[name] = true
}

// havocArray replaces an array by a fresh unconstrained version.
func (st *State) havocArray(name string) string {
	sort, ok := st.vc.arrSorts[name]
	if !ok {
		// ghost state that has not been touched yet on this path
		if strings.HasPrefix(name, "GG_") {
			if g, ok2 := st.vc.gglobals[strings.TrimPrefix(name, "GG_")]; ok2 {
				sort, ok = ghostSort(g.GoTyp), true
			}
		} else if strings.HasPrefix(name, "G_") {
			for k, g := range st.vc.gfields {
				if "G_"+strings.TrimSuffix(k, "."+g.Field)+"__"+g.Field == name {
					sort, ok = arrSort(SInt, ghostSort(g.GoTyp)), true
				}
			}
		}
		if ok {
			st.vc.arrSorts[name] = sort
		}
	}
	if !ok {
		panic("havoc of unknown array " + name)
	}
	// make sure the initial version exists so that old() can refer to it
	st.array(name, sort)
	st.vc.counter++
	sym := fmt.Sprintf("%s!%d", name, st.vc.counter)
	st.declare(sym, sort)
	st.arr[name] = sym
	st.written[name] = true
	return sym
}

// refInfo records which arrays hold references so that the allocation
// invariant (every stored reference is < alloc) can be assumed.
func (st *State) wellTyped(name, sym, alloc string) {
	if strings.HasPrefix(name, "GG_") {
		// ghost maps keyed by references: entries of unallocated references have their default value
		g, isG := st.vc.gglobals[strings.TrimPrefix(name, "GG_")]
		if sort, ok := st.vc.arrSorts[name]; ok && isG && strings.HasPrefix(g.GoTyp, "ref") && strings.HasPrefix(string(sort), "(Array Int ") {
			es := strings.TrimSuffix(strings.TrimPrefix(string(sort), "(Array Int "), ")")
			def := zeroOf(Sort(es))
			if strings.HasPrefix(es, "(Array") {
				def = "((as const " + es + ") false)"
				if strings.HasSuffix(es, "Int)") {
					def = "((as const " + es + ") 0)"
				}
			}
			if es == "Bool" {
				return // plain sets of values (not keyed by references)
			}
			st.vc.counter++
			o := fmt.Sprintf("o!%d", st.vc.counter)
			st.assume(fmt.Sprintf("(forall ((%s Int)) (! (=> (>= %s %s) (= (select %s %s) %s)) :pattern ((select %s %s))))", o, o, alloc, sym, o, def, sym, o))
		}
		return
	}
	if strings.HasPrefix(name, "G_") {
		// ghost fields of unallocated references have their default value (ghost state is ours to define;
		// ghost assignments only ever target allocated objects)
		if sort, ok := st.vc.arrSorts[name]; ok {
			es := strings.TrimSuffix(strings.TrimPrefix(string(sort), "(Array Int "), ")")
			def := zeroOf(Sort(es))
			if strings.HasPrefix(es, "(Array") {
				def = "((as const " + es + ") false)"
				if strings.HasSuffix(es, "Int)") {
					def = "((as const " + es + ") 0)"
				}
			}
			st.vc.counter++
			o := fmt.Sprintf("o!%d", st.vc.counter)
			st.assume(fmt.Sprintf("(forall ((%s Int)) (! (=> (>= %s %s) (= (select %s %s) %s)) :pattern ((select %s %s))))", o, o, alloc, sym, o, def, sym, o))
		}
		return
	}
	info, ok := st.vc.arrInfo[name]
	if !ok {
		return
	}
	st.vc.counter++
	o := fmt.Sprintf("o!%d", st.vc.counter)
	k := fmt.Sprintf("k!%d", st.vc.counter)
	switch info.shape {
	case "obj": // Array Int X
		sel := sSel(sym, o)
		// only allocated objects carry the typing invariant; unallocated cells are unconstrained
		if info.isRef {
			st.assume(fmt.Sprintf("(forall ((%s Int)) (! (=> (and (<= 0 %s) (< %s %s)) (and (<= 0 %s) (< %s %s))) :pattern (%s)))", o, o, o, alloc, sel, sel, alloc, sel))
		} else if info.unsigned {
			st.assume(fmt.Sprintf("(forall ((%s Int)) (! (=> (and (<= 0 %s) (< %s %s)) (<= 0 %s)) :pattern (%s)))", o, o, o, alloc, sel, sel))
		}
	case "nested": // Array Int (Array K X)
		sel := sSel(sSel(sym, o), k)
		if info.isRef {
			st.assume(fmt.Sprintf("(forall ((%s Int) (%s %s)) (! (=> (and (<= 0 %s) (< %s %s)) (and (<= 0 %s) (< %s %s))) :pattern (%s)))", o, k, info.keySort, o, o, alloc, sel, sel, alloc, sel))
		} else if info.unsigned {
			st.assume(fmt.Sprintf("(forall ((%s Int) (%s %s)) (! (=> (and (<= 0 %s) (< %s %s)) (<= 0 %s)) :pattern (%s)))", o, k, info.keySort, o, o, alloc, sel, sel))
		}
	case "mapdom":
		// the nil map is empty
		st.assume(fmt.Sprintf("(forall ((%s %s)) (! (not %s) :pattern (%s)))", k, info.keySort, sSel(sSel(sym, "0"), k), sSel(sSel(sym, "0"), k)))
	}
}

type arrInfo struct {
	shape    string // obj | nested | mapdom
	isRef    bool
	unsigned bool
	keySort  Sort
}

func isRefType(t types.Type) bool {
	switch t.Underlying().(type) {
	case *types.Pointer, *types.Map, *types.Chan:
		return true
	}
	return false
}
func isUnsigned(t types.Type) bool {
	if b, ok := t.Underlying().(*types.Basic); ok {
		return b.Info()&types.IsUnsigned != 0
	}
	return false
}

func leafIsRef(l leaf) bool {
	switch l.Comp {
	case "base":
		return true
	case "pay", "tag", "off", "len":
		return false
	}
	return isRefType(l.Typ)
}
func leafUnsigned(l leaf) bool {
	switch l.Comp {
	case "off", "len", "tag":
		return true
	case "":
		return isUnsigned(l.Typ)
	}
	return false
}

// field array for struct key `owner`, leaf path
func (vc *VC) fieldArr(owner, path string, l leaf) (string, Sort) {
	name := "F_" + owner + "__" + sanitize(path)
	if _, ok := vc.arrInfo[name]; !ok {
		vc.arrInfo[name] = arrInfo{shape: "obj", isRef: leafIsRef(l), unsigned: leafUnsigned(l)}
	}
	s := arrSort(SInt, l.Sort)
	vc.arrSorts[name] = s
	return name, s
}
func (vc *VC) elemArr(owner, path string, l leaf) (string, Sort) {
	name := "E_" + owner + "__" + sanitize(path)
	if _, ok := vc.arrInfo[name]; !ok {
		vc.arrInfo[name] = arrInfo{shape: "nested", isRef: leafIsRef(l), unsigned: leafUnsigned(l), keySort: SInt}
	}
	s := arrSort(SInt, arrSort(SInt, l.Sort))
	vc.arrSorts[name] = s
	return name, s
}
func (vc *VC) mapKey(m *types.Map) string { return typeKey(m.Key()) + "_" + typeKey(m.Elem()) }
func (vc *VC) mapDomArr(m *types.Map) (string, Sort) {
	name := "MD_" + vc.mapKey(m)
	ks := vc.leaves(m.Key())[0].Sort
	if _, ok := vc.arrInfo[name]; !ok {
		vc.arrInfo[name] = arrInfo{shape: "mapdom", keySort: ks}
	}
	s := arrSort(SInt, arrSort(ks, SBool))
	vc.arrSorts[name] = s
	return name, s
}
func (vc *VC) mapValArr(m *types.Map, l leaf) (string, Sort) {
	name := "MV_" + vc.mapKey(m) + "__" + sanitize(l.Path)
	ks := vc.leaves(m.Key())[0].Sort
	if _, ok := vc.arrInfo[name]; !ok {
		vc.arrInfo[name] = arrInfo{shape: "nested", isRef: leafIsRef(l), unsigned: leafUnsigned(l), keySort: ks}
	}
	s := arrSort(SInt, arrSort(ks, l.Sort))
	vc.arrSorts[name] = s
	return name, s
}

// ---------- loads and stores ----------

// ownerOf returns the canonical owner key for a pointee type.
func ownerKey(t types.Type) string {
	if _, ok := t.Underlying().(*types.Struct); ok {
		return typeKey(t)
	}
	return "cell_" + typeKey(t)
}

func (st *State) ptrToLoc(p Val, elem types.Type) LocV {
	switch x := p.(type) {
	case LocV:
		return x
	case Sc:
		return LocV{Obj: x.T, Owner: ownerKey(elem), Typ: elem}
	}
	panic(fmt.Sprintf("ptrToLoc: %T", p))
}

func (st *State) loadLoc(l LocV, snap map[string]string) Val {
	vc := st.vc
	ls := vc.leaves(l.Typ)
	terms := make([]string, len(ls))
	for i, lf := range ls {
		path := joinPath(l.Prefix, lf.Path)
		if l.Elem {
			name, s := vc.elemArr(l.Owner, path, lf)
			terms[i] = sSel(sSel(st.arrayIn(snap, name, s), l.Obj), l.Idx)
		} else {
			name, s := vc.fieldArr(l.Owner, path, lf)
			terms[i] = sSel(st.arrayIn(snap, name, s), l.Obj)
		}
	}
	return vc.unflatten(terms, l.Typ)
}

func (st *State) storeLoc(l LocV, v Val) {
	vc := st.vc
	ls := vc.leaves(l.Typ)
	terms := vc.flatten(v, l.Typ)
	if len(terms) != len(ls) {
		panic(fmt.Sprintf("storeLoc: %d terms for %d leaves of %s", len(terms), len(ls), l.Typ))
	}
	for i, lf := range ls {
		path := joinPath(l.Prefix, lf.Path)
		if l.Elem {
			name, s := vc.elemArr(l.Owner, path, lf)
			a := st.array(name, s)
			st.setArray(name, s, sStore(a, l.Obj, sStore(sSel(a, l.Obj), l.Idx, terms[i])))
		} else {
			name, s := vc.fieldArr(l.Owner, path, lf)
			a := st.array(name, s)
			st.setArray(name, s, sStore(a, l.Obj, terms[i]))
		}
	}
}

func (st *State) zeroVal(t types.Type) Val {
	ls := st.vc.leaves(t)
	terms := make([]string, len(ls))
	for i, l := range ls {
		terms[i] = zeroOf(l.Sort)
	}
	return st.vc.unflatten(terms, t)
}

// freshVal makes an unconstrained value of type t (with unsigned / allocation facts).
func (st *State) freshVal(prefix string, t types.Type) Val {
	ls := st.vc.leaves(t)
	terms := make([]string, len(ls))
	for i, l := range ls {
		terms[i] = st.fresh(prefix+"_"+l.Path, l.Sort)
		if leafIsRef(l) {
			st.assume(fmt.Sprintf("(and (<= 0 %s) (< %s %s))", terms[i], terms[i], st.allocTerm()))
		} else if leafUnsigned(l) {
			st.assume(fmt.Sprintf("(<= 0 %s)", terms[i]))
		}
	}
	return st.vc.unflatten(terms, t)
}

// ----- maps -----

func (st *State) mapDom(m *types.Map, ref string, snap map[string]string) string {
	name, s := st.vc.mapDomArr(m)
	return sSel(st.arrayIn(snap, name, s), ref)
}

func (st *State) mapHas(m *types.Map, ref, key string, snap map[string]string) string {
	return sSel(st.mapDom(m, ref, snap), key)
}

func (st *State) mapGetRaw(m *types.Map, ref, key string, snap map[string]string) Val {
	ls := st.vc.leaves(m.Elem())
	terms := make([]string, len(ls))
	for i, l := range ls {
		name, s := st.vc.mapValArr(m, l)
		terms[i] = sSel(sSel(st.arrayIn(snap, name, s), ref), key)
	}
	return st.vc.unflatten(terms, m.Elem())
}

// mapGet implements m[k] (zero value when absent).
func (st *State) mapGet(m *types.Map, ref, key string, snap map[string]string) Val {
	has := st.mapHas(m, ref, key, snap)
	ls := st.vc.leaves(m.Elem())
	terms := make([]string, len(ls))
	for i, l := range ls {
		name, s := st.vc.mapValArr(m, l)
		terms[i] = sIte(has, sSel(sSel(st.arrayIn(snap, name, s), ref), key), zeroOf(l.Sort))
	}
	return st.vc.unflatten(terms, m.Elem())
}

func (st *State) mapPut(m *types.Map, ref, key string, v Val) {
	name, s := st.vc.mapDomArr(m)
	a := st.array(name, s)
	st.setArray(name, s, sStore(a, ref, sStore(sSel(a, ref), key, "true")))
	ls := st.vc.leaves(m.Elem())
	terms := st.vc.flatten(v, m.Elem())
	for i, l := range ls {
		name, s := st.vc.mapValArr(m, l)
		a := st.array(name, s)
		st.setArray(name, s, sStore(a, ref, sStore(sSel(a, ref), key, terms[i])))
	}
}

func (st *State) mapDelete(m *types.Map, ref, key string) {
	name, s := st.vc.mapDomArr(m)
	a := st.array(name, s)
	st.setArray(name, s, sStore(a, ref, sStore(sSel(a, ref), key, "false")))
}

// card: cardinality of a key set, uninterpreted with axioms added on demand.
func (st *State) card(set string, ks Sort) string {
	fn := "card_" + sanitize(string(ks))
	st.vc.needCard[fn] = ks
	return "(" + fn + " " + set + ")"
}

func (st *State) mapLen(m *types.Map, ref string, snap map[string]string) string {
	ks := st.vc.leaves(m.Key())[0].Sort
	return st.card(st.mapDom(m, ref, snap), ks)
}

// ----- slices -----

func (st *State) sliceElemLoc(s SliceV, idx string, elem types.Type) LocV {
	i := idx
	if s.Off != "0" {
		i = "(+ " + s.Off + " " + idx + ")"
	}
	return LocV{Elem: true, Obj: s.Base, Idx: i, Owner: typeKey(elem), Typ: elem}
}

func sortedKeys(m map[string]string) []string {
	var ks []string
	for k := range m {
		ks = append(ks, k)
	}
	sort.Strings(ks)
	return ks
}
