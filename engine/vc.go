package main

// VC: global registry (contracts, predicates, ghost declarations, obligations).

import (
	"fmt"
	"go/types"
	"sort"
	"strings"

	"golang.org/x/tools/go/packages"
	"golang.org/x/tools/go/ssa"
)

type Obligation struct {
	ID      int
	Name    string   // stable name: pkg.Func/kind:clause
	Tags    []string // property ids
	Func    string
	Kind    string // ensures | requires | invariant-entry | invariant-preserved | safety | event | frame | canary | engine
	Site    string // source position of the site where it is checked
	Trail   []string
	SMT     string
	SMTLen  int // size of the query (kept when the text itself is dropped after the obligation was discharged)
	Trivial bool   // goal simplified to true
	Failed  string // engine-level failure reason (unsupported construct etc.)
	// results
	Status string // proved | sat | unknown | error
	Solver string
	Time   float64
	Model  string
	Expect string // "unsat" normally; "notunsat" for canaries
	Outputs map[string]string
	Replay  *ReplayHint
	Text    string // the clause conjunct being checked
}

// ReplayHint carries the terms whose model values are needed to rebuild the failing entry state.
type ReplayHint struct {
	Func   string
	Values map[string]string // label -> SMT term to evaluate
}

type VC struct {
	prog    *ssa.Program
	pkgs    []*packages.Package
	ssaPkgs map[string]*ssa.Package

	contracts map[*ssa.Function]*Contract
	ifaceCon  map[string]*Contract // "pkgpath.Iface.Method"
	fieldCon  map[string]*Contract // "pkgpath.Type.field"
	byName    map[string]*Contract // fn.String() -> contract (trusted)
	preds     map[string]*Pred
	gfields   map[string]*GhostField // typeKey + "." + field
	gglobals  map[string]*GhostGlobal
	events    []*Event
	axioms    []*Clause
	ufs       map[string]*UFDecl
	sumFns    map[string]string // canonical summand term -> name of the uninterpreted sum function (sumover)
	opaque    map[string]bool
	effectFree map[string]bool

	leafCache map[string][]leaf
	arrSorts  map[string]Sort
	arrInfo   map[string]arrInfo
	needCard  map[string]Sort
	counter   int
	strLits   map[string]int
	typeIDs   map[string]int
	funcIDs   map[string]int

	obls      []*Obligation
	curFunc   *ssa.Function
	abstracted map[string]map[string]bool // func -> set of abstracted callee descriptions
	inlined    map[string]map[string]bool
	// functions whose contract (written in /repo) was applied at a call site; those not verified by the running
	// check are assumptions of that check and are listed as such
	usedRepoContracts map[*ssa.Function]bool
	pathCount  int
	maxPaths   int
	funcsDone  []string
	specErrors []string
	loopHeads  map[*ssa.Function]map[*ssa.BasicBlock]*loopInfo
	missingFuncs []string
	curText string
	eventFired map[*Event]int
	canaries   map[string][]*Obligation
	canaryOrder []string
}

func newVC() *VC {
	return &VC{
		contracts: map[*ssa.Function]*Contract{}, ifaceCon: map[string]*Contract{}, fieldCon: map[string]*Contract{},
		byName: map[string]*Contract{}, preds: map[string]*Pred{}, gfields: map[string]*GhostField{},
		gglobals: map[string]*GhostGlobal{}, ufs: map[string]*UFDecl{}, opaque: map[string]bool{}, effectFree: map[string]bool{},
		leafCache: map[string][]leaf{}, arrSorts: map[string]Sort{}, arrInfo: map[string]arrInfo{}, needCard: map[string]Sort{},
		strLits: map[string]int{"": 0}, typeIDs: map[string]int{}, funcIDs: map[string]int{},
		abstracted: map[string]map[string]bool{}, inlined: map[string]map[string]bool{}, maxPaths: 20000, usedRepoContracts: map[*ssa.Function]bool{},
		canaries: map[string][]*Obligation{}, eventFired: map[*Event]int{}, ssaPkgs: map[string]*ssa.Package{}, loopHeads: map[*ssa.Function]map[*ssa.BasicBlock]*loopInfo{},
	}
}

func (vc *VC) strLit(s string) string {
	if id, ok := vc.strLits[s]; ok {
		return fmt.Sprint(id)
	}
	id := len(vc.strLits)
	vc.strLits[s] = id
	return fmt.Sprint(id)
}

func (vc *VC) typeID(t types.Type) string {
	k := t.String()
	if id, ok := vc.typeIDs[k]; ok {
		return fmt.Sprint(id)
	}
	id := len(vc.typeIDs) + 1
	vc.typeIDs[k] = id
	return fmt.Sprint(id)
}

func (vc *VC) funcID(f FuncV) string {
	k := fmt.Sprint(f.Fn)
	if id, ok := vc.funcIDs[k]; ok {
		return fmt.Sprint(id)
	}
	id := len(vc.funcIDs) + 1000000
	vc.funcIDs[k] = id
	return fmt.Sprint(id)
}

func (vc *VC) noteAbstracted(callee string) {
	f := vc.curFunc.String()
	if vc.abstracted[f] == nil {
		vc.abstracted[f] = map[string]bool{}
	}
	vc.abstracted[f][callee] = true
}
func (vc *VC) noteInlined(callee string) {
	f := vc.curFunc.String()
	if vc.inlined[f] == nil {
		vc.inlined[f] = map[string]bool{}
	}
	vc.inlined[f][callee] = true
}

// ---------- registration of spec files ----------

func (vc *VC) addSpec(sf *SpecFile, pkg *packages.Package) error {
	for _, p := range sf.Preds {
		if _, dup := vc.preds[p.Name]; dup {
			return fmt.Errorf("%s: duplicate pred %s", p.File, p.Name)
		}
		vc.preds[p.Name] = p
	}
	for _, g := range sf.GGlobals {
		vc.gglobals[g.Name] = g
	}
	for _, u := range sf.UFs {
		vc.ufs[u.Name] = u
	}
	for _, o := range sf.Opaque {
		vc.opaque[o] = true
	}
	for _, o := range sf.EffectFree {
		vc.effectFree[o] = true
	}
	vc.axioms = append(vc.axioms, sf.Axioms...)
	for _, g := range sf.GFields {
		nt, err := vc.resolveNamed(g.Type, pkg)
		if err != nil {
			if pkg == nil {
				continue // trusted spec: ghost field of a dependency that is not loaded for this property
			}
			return fmt.Errorf("ghost field %s.%s: %v", g.Type, g.Field, err)
		}
		vc.gfields[typeKey(nt)+"."+g.Field] = g
	}
	for _, ev := range sf.Events {
		vc.events = append(vc.events, ev)
	}
	for _, c := range sf.Contracts {
		switch c.Kind {
		case "interface":
			full, err := vc.qualify(c.Name, pkg, 2)
			if err != nil {
				if pkg == nil {
					continue // dependency not loaded for this property
				}
				return fmt.Errorf("%s:%d: %v", c.File, c.Line, err)
			}
			vc.ifaceCon[full] = c
		case "field":
			full, err := vc.qualify(c.Name, pkg, 2)
			if err != nil {
				if pkg == nil {
					continue
				}
				return fmt.Errorf("%s:%d: %v", c.File, c.Line, err)
			}
			vc.fieldCon[full] = c
		default:
			fn, err := vc.resolveFunc(c.Name, pkg)
			if err != nil {
				if pkg == nil {
					continue // assumed contract for a dependency that is not loaded for this property
				}
				return fmt.Errorf("%s:%d: %v", c.File, c.Line, err)
			}
			if _, dup := vc.contracts[fn]; dup {
				return fmt.Errorf("%s:%d: duplicate contract for %s", c.File, c.Line, fn)
			}
			vc.contracts[fn] = c
			if pkg == nil {
				c.Trusted = true
			}
		}
	}
	return nil
}

// qualify turns  [pkg.]Type.member  into  pkgpath.Type.member  (tail = number of trailing components that are not package)
func (vc *VC) qualify(name string, pkg *packages.Package, tail int) (string, error) {
	parts := strings.Split(name, ".")
	if len(parts) < tail {
		return "", fmt.Errorf("%s: not a qualified member name", name)
	}
	if len(parts) == tail {
		if pkg == nil {
			return "", fmt.Errorf("%s: package-qualified name required in trusted spec", name)
		}
		return pkg.PkgPath + "." + name, nil
	}
	pk := strings.Join(parts[:len(parts)-tail], ".")
	path, err := vc.pkgPathOf(pk, pkg)
	if err != nil {
		return "", err
	}
	return path + "." + strings.Join(parts[len(parts)-tail:], "."), nil
}

// pkgPathOf resolves a package name or path (possibly abbreviated) to a loaded package path.
func (vc *VC) pkgPathOf(pk string, ctx *packages.Package) (string, error) {
	if ctx != nil {
		var hits []string
		for path, imp := range ctx.Imports {
			if path == pk {
				return path, nil
			}
			if imp.Name == pk {
				hits = append(hits, path)
			}
		}
		sort.Strings(hits)
		for _, h := range hits {
			if strings.HasPrefix(h, "tkestack.io/kvass/") {
				return h, nil
			}
		}
		if len(hits) > 0 {
			return hits[0], nil
		}
		if ctx.Name == pk {
			return ctx.PkgPath, nil
		}
	}
	// search all loaded packages
	var cands []string
	for path, sp := range vc.ssaPkgs {
		if path == pk || sp.Pkg.Name() == pk || strings.HasSuffix(path, "/"+pk) {
			cands = append(cands, path)
		}
	}
	sort.Strings(cands)
	for _, c := range cands {
		if c == pk {
			return c, nil
		}
	}
	// prefer kvass packages
	for _, c := range cands {
		if strings.HasPrefix(c, "tkestack.io/kvass/") {
			return c, nil
		}
	}
	if len(cands) > 0 {
		return cands[0], nil
	}
	return "", fmt.Errorf("package %q not found", pk)
}

func (vc *VC) resolveNamed(name string, ctx *packages.Package) (types.Type, error) {
	parts := strings.Split(name, ".")
	var path, tn string
	if len(parts) == 1 {
		if ctx == nil {
			return nil, fmt.Errorf("type %s needs a package", name)
		}
		path, tn = ctx.PkgPath, parts[0]
	} else {
		p, err := vc.pkgPathOf(strings.Join(parts[:len(parts)-1], "."), ctx)
		if err != nil {
			return nil, err
		}
		path, tn = p, parts[len(parts)-1]
	}
	sp := vc.ssaPkgs[path]
	if sp == nil {
		return nil, fmt.Errorf("package %s not loaded", path)
	}
	obj := sp.Pkg.Scope().Lookup(tn)
	if obj == nil {
		return nil, fmt.Errorf("type %s not found in %s", tn, path)
	}
	if _, ok := obj.(*types.TypeName); !ok {
		return nil, fmt.Errorf("%s.%s is not a type", path, tn)
	}
	return obj.Type(), nil
}

// resolveFunc: "f" | "Type.m" | "pkg.f" | "pkg.Type.m" | quoted full ssa name
func (vc *VC) resolveFunc(name string, ctx *packages.Package) (*ssa.Function, error) {
	parts := strings.Split(name, ".")
	try := func(path string, rest []string) *ssa.Function {
		sp := vc.ssaPkgs[path]
		if sp == nil {
			return nil
		}
		if len(rest) == 1 {
			if f := sp.Func(rest[0]); f != nil {
				return f
			}
			return nil
		}
		if len(rest) == 2 {
			obj := sp.Pkg.Scope().Lookup(rest[0])
			if obj == nil {
				return nil
			}
			tn, ok := obj.(*types.TypeName)
			if !ok {
				return nil
			}
			for _, t := range []types.Type{tn.Type(), types.NewPointer(tn.Type())} {
				ms := vc.prog.MethodSets.MethodSet(t)
				for i := 0; i < ms.Len(); i++ {
					if ms.At(i).Obj().Name() == rest[1] {
						return vc.prog.MethodValue(ms.At(i))
					}
				}
			}
		}
		return nil
	}
	if ctx != nil && len(parts) <= 2 {
		if f := try(ctx.PkgPath, parts); f != nil {
			return f, nil
		}
	}
	for n := len(parts) - 1; n >= 1; n-- {
		if len(parts)-n > 2 {
			continue
		}
		pk := strings.Join(parts[:n], ".")
		path, err := vc.pkgPathOf(pk, ctx)
		if err != nil {
			continue
		}
		if f := try(path, parts[n:]); f != nil {
			return f, nil
		}
	}
	return nil, fmt.Errorf("function %q not found", name)
}

func (vc *VC) addObligation(o *Obligation) {
	o.ID = len(vc.obls)
	vc.obls = append(vc.obls, o)
}
