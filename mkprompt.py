#!/usr/bin/env python3
# usage: mkprompt.py <ID> [extra-hint]  -> writes /tmp/prompt-<ID>.txt : the task for a seeding sub-agent (property text only, nothing from /verif)
import json, sys
pid = sys.argv[1]
prop = None
for l in open('/verif/properties.jsonl'):
    p = json.loads(l)
    if p['id'] == pid:
        prop = p
files = ", ".join(prop['anchors']['files'])
txt = f"""You are testing how well a verification effort detects regressions in the Go project tkestack/kvass (a Prometheus sharding coordinator + sidecar). Work ONLY inside the git worktree /tmp/seed-{pid} (a checkout of the project). Do not read or touch /verif or /repo.

Every shell call must start with: export GOFLAGS=-mod=mod GOPROXY=off GOSUMDB=off GOTOOLCHAIN=local   (there is no network; the module cache is complete).

The property under test (this text is all you get about it):

---
{pid} — {prop['title']}

{prop['statement']}

Quantified over: {prop['quantifier']['text']}

Relevant files: {files}
---

Your task: write ONE realistic code change (a plausible bug a developer could introduce: a refactor gone subtly wrong, a wrong condition, a missed case, two cooperating edits that each look fine alone) to the non-test Go source of the project that BREAKS this property, while (a) the project still compiles (`go build ./pkg/...` in /tmp/seed-{pid}; `go build ./...` fails at the link step of cmd/kvass already before any change, ignore that), and (b) the existing test suite gives exactly the same results as before your change. Note: some tests already fail before any change and the package pkg/sidecar's own tests do not compile — compare results before/after with `go test -vet=off -count=1 ./pkg/... 2>&1 | grep -E "^(ok|FAIL|---)"`; they must be identical (ignore timings).

The change must need something SPECIFIC to manifest — a particular combination of inputs or reports, a particular iteration order or random pick, a crash or fault at a particular point, a multi-step sequence of operations, an unusual but legal input, or two sites that each look fine alone — not something ordinary use exposes immediately. Do not touch test files, do not add build tags, do not add comments that give the bug away. {sys.argv[2] if len(sys.argv) > 2 else ''}

Also write a demonstration: a new Go test file (put it in the affected package directory, name it zz_seed_demo_test.go, in-package so it can reach unexported functions; if the package is pkg/sidecar, whose own *_test.go files do not compile, run your demo with a `go test -overlay` JSON that replaces those four files (injector_test.go, proxy_test.go, service_test.go, targets_test.go) by a file containing only `package sidecar`, and give that command) that FAILS with your change and PASSES on the unchanged code. Run it both ways yourself to confirm (do NOT use `git stash` - it is shared between worktrees; use `git diff > /tmp/seed-{pid}.diff; git apply -R /tmp/seed-{pid}.diff` to remove the source change and `git apply` to restore it, keeping the demo file).

Deliverables, all under /tmp/seed-{pid}/SEED/ :
  - patch.diff : `git diff` of ONLY your source change (not the demo test), relative to the worktree's HEAD
  - the demo test file (copy, keep the name zz_seed_demo_test.go), plus any overlay json it needs
  - meta.json : {{"property":"{pid}","summary":"what the change does","needs_to_manifest":"the specific inputs/order/sequence needed","demo_cmd":"command that runs the demo","files_changed":[...]}}
Leave the worktree with your source change APPLIED and the demo file in place.

In your final answer report: the one-paragraph description of the change, what it needs in order to manifest, and the exact commands you ran with their outcome (demo fails with change / passes without; build ok; existing tests identical)."""
open(f'/tmp/prompt-{pid}.txt', 'w').write(txt)
print('written', pid)
