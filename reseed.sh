#!/bin/bash
# usage: reseed.sh <seed-dir-name>...   — regression: apply each stored seeded change to /repo, run the check of the property it
# was written against (the prefix of the directory name), expect exit 1, undo, and record the result in the seed's meta.json
# ("our_checks"). Evidence goes to a scratch directory. Refuses a dirty /repo.
cd /verif || exit 2
export VERIF_EVIDENCE_DIR=/tmp/reseed-evidence
if [ -n "$(git -C /repo status --porcelain)" ]; then echo "/repo is dirty"; exit 2; fi
for S in "$@"; do
  D=/verif/seeded/$S
  c=${S%%-*}
  P=$D/patch.diff; [ -f $D/patch.rebased.diff ] && P=$D/patch.rebased.diff   # a seed ported to the current tree after later fixes
  git -C /repo apply $P || { echo "$S: PATCH DOES NOT APPLY"; git -C /repo checkout -- .; continue; }
  ./check $c quick > /tmp/reseed-$S-$c.txt 2>&1; rc=$?
  git -C /repo checkout -- .
  if [ $rc -eq 1 ]; then echo "$S: $c detects ($(grep -c '^VIOLATION' /tmp/reseed-$S-$c.txt) violations, $(grep '^VIOLATION' /tmp/reseed-$S-$c.txt | grep -vc no-failing-input-found) with witness)"; else echo "$S: $c MISSES (exit $rc)"; fi
  python3 - "$D/meta.json" "$c" "$rc" "/tmp/reseed-$S-$c.txt" <<'PY'
import json,sys,re
p,c,rc,log=sys.argv[1:5]
m=json.load(open(p))
lines=open(log).read().splitlines()
v=[re.sub(r'^VIOLATION property=\S+ replay=/verif/out/replay/','',l) for l in lines if l.startswith('VIOLATION')]
m.setdefault('our_checks',{})[c]={'detected': rc=='1', 'violations': v[:12], 'summary':[l for l in lines if l.startswith('property ')]}
json.dump(m,open(p,'w'),indent=1)
PY
done
