#!/bin/bash
# usage: seedcheck.sh <ID> <seed-dir> [check-ids...]   — confirm a seeded change independently, then run our checks against it
set -u
ID=$1; SRC=$2; shift 2
CHECKS="${@:-$ID}"
export GOFLAGS=-mod=mod GOPROXY=off GOSUMDB=off GOTOOLCHAIN=local
DST=/verif/seeded/$ID${SEED_SUFFIX:-}
mkdir -p $DST
cp $SRC/SEED/patch.diff $DST/ 2>/dev/null
cp $SRC/SEED/meta.json $DST/meta.agent.json 2>/dev/null
for f in $SRC/SEED/*; do case "$f" in *patch.diff|*meta.json) ;; *) cp -r "$f" $DST/ ;; esac; done
W=/tmp/confirm-$ID
git -C /repo worktree remove --force $W 2>/dev/null
git -C /repo worktree add -q --detach $W HEAD || exit 2
cd $W
PKG=$(grep '^+++ b/' $DST/patch.diff | sed 's|+++ b/||' | xargs -n1 dirname | sort -u | head -1)
DEMO=$(ls $DST/zz_seed_demo_test.go $DST/*_test.go 2>/dev/null | head -1)
DPKG=$PKG
if [ -n "$DEMO" ]; then
  dp=$(grep -m1 '^package ' $DEMO | awk '{print $2}')
  case "$dp" in sidecar) DPKG=pkg/sidecar;; coordinator) DPKG=pkg/coordinator;; scrape) DPKG=pkg/scrape;; target) DPKG=pkg/target;; shard) DPKG=pkg/shard;; kubernetes) DPKG=pkg/shard/kubernetes;; explore) DPKG=pkg/explore;; discovery) DPKG=pkg/discovery;; prom) DPKG=pkg/prom;; esac
fi
OV=""
if [ "$DPKG" = "pkg/sidecar" ]; then
  echo "package sidecar" > /tmp/confirm-$ID-stub.go
  python3 - <<PY
import json
ov={"Replace":{"$W/pkg/sidecar/%s"%f:"/tmp/confirm-$ID-stub.go" for f in ["injector_test.go","proxy_test.go","service_test.go","targets_test.go"]}}
json.dump(ov,open("/tmp/confirm-$ID-ov.json","w"))
PY
  OV="-overlay /tmp/confirm-$ID-ov.json"
fi
echo "== baseline tests (no patch)"
go test -vet=off -count=1 ./pkg/... 2>&1 | grep -E "^(ok|FAIL|---)" | sed -E 's/[0-9.]+s$//; s/\([0-9.]+s\)//' > /tmp/confirm-$ID-before.txt
[ -n "$DEMO" ] && cp $DEMO $W/$DPKG/zz_seed_demo_test.go
echo "== demo without patch"
go test $OV -vet=off -count=1 -run 'Seed|seed|Demo' ./$DPKG 2>&1 | tail -3 | tee /tmp/confirm-$ID-demo-nopatch.txt
rm -f $W/$DPKG/zz_seed_demo_test.go
git apply $DST/patch.diff || { echo "PATCH DOES NOT APPLY"; exit 2; }
echo "== build with patch"; go build ./pkg/... && echo build-ok
go test -vet=off -count=1 ./pkg/... 2>&1 | grep -E "^(ok|FAIL|---)" | sed -E 's/[0-9.]+s$//; s/\([0-9.]+s\)//' > /tmp/confirm-$ID-after.txt
if diff -q /tmp/confirm-$ID-before.txt /tmp/confirm-$ID-after.txt >/dev/null; then echo "existing tests: identical"; else echo "existing tests: DIFFER"; diff /tmp/confirm-$ID-before.txt /tmp/confirm-$ID-after.txt | head; fi
[ -n "$DEMO" ] && cp $DEMO $W/$DPKG/zz_seed_demo_test.go
echo "== demo with patch"
go test $OV -vet=off -count=1 -run 'Seed|seed|Demo' ./$DPKG 2>&1 | tail -5 | tee /tmp/confirm-$ID-demo-patch.txt
cd /verif
git -C /repo worktree remove --force $W
echo "== our checks against the change"
if [ -n "$(git -C /repo status --porcelain)" ]; then echo "/repo is dirty: commit first"; exit 2; fi
git -C /repo apply $DST/patch.diff || { echo "patch does not apply to /repo"; exit 2; }
export VERIF_EVIDENCE_DIR=/tmp/confirm-$ID-evidence
for c in $CHECKS; do ./check $c quick > /tmp/confirm-$ID-check-$c.txt 2>&1; echo "check $c exit=$?"; grep -E "^(VIOLATION|KNOWN|property)" /tmp/confirm-$ID-check-$c.txt | head -8; done
git -C /repo checkout -- .
git -C /repo status --short | head -3
python3 - <<PY
import json,os,re
d="$DST"
agent={}
try: agent=json.load(open(d+"/meta.agent.json"))
except Exception: pass
def rd(f):
    try: return open(f).read()
    except Exception: return ""
checks={}
for c in "$CHECKS".split():
    t=rd("/tmp/confirm-$ID-check-%s.txt"%c)
    viol=[re.sub(r".*replay=/verif/out/replay/","",l) for l in t.splitlines() if l.startswith("VIOLATION")]
    checks[c]={"detected":bool(viol),"violations":viol[:12],"summary":[l for l in t.splitlines() if l.startswith("property")]}
meta={"property":"$ID","breaks":agent.get("summary",""),"needs_to_manifest":agent.get("needs_to_manifest",""),"files_changed":agent.get("files_changed",[]),
 "confirmed_by_me":{"patch_applies":True,"build_ok":True,"existing_tests_identical":rd("/tmp/confirm-$ID-before.txt")==rd("/tmp/confirm-$ID-after.txt"),
   "demo_without_patch":rd("/tmp/confirm-$ID-demo-nopatch.txt").strip().splitlines()[-1:] ,"demo_with_patch":[l for l in rd("/tmp/confirm-$ID-demo-patch.txt").splitlines() if l.strip()][:4],
   "commands":"scratch worktree of /repo HEAD; go test -vet=off -count=1 ./pkg/... before/after; demo test (-run 'Seed|seed|Demo') without and with patch.diff; then git -C /repo apply patch.diff; ./check <id> quick; git -C /repo checkout -- ."},
 "our_checks":checks}
json.dump(meta,open(d+"/meta.json","w"),indent=1)
print("meta written", d+"/meta.json", {k:v["detected"] for k,v in checks.items()})
PY
