#!/bin/sh
# builds the VC generator from /verif/engine (offline, module cache only)
cd "$(dirname "$0")/engine" || exit 2
export GOFLAGS=-mod=mod GOPROXY=off GOSUMDB=off GOTOOLCHAIN=local
mkdir -p ../bin ../out ../evidence
go build -o ../bin/govc . || exit 1
echo "govc built"
